"""Solver-based checking of dvc-data's real code (see /verif/DESIGN.md)."""
