"""Run the checks against the seeded breaking changes kept under /verif/seeded/<name>/ (patch.diff + meta.json).

    python -m vf.seeded [name ...] [--tier quick]

For each: git -C /repo apply patch.diff -> ./check <property> -> git -C /repo checkout -- . (always), evidence redirected to a scratch
directory so the committed evidence is not touched.  Writes /verif/seeded/RESULTS.json.
"""
import json
import os
import subprocess
import sys
import tempfile
import time

VERIF = os.path.dirname(os.path.dirname(os.path.abspath(__file__)))
SEEDED = os.path.join(VERIF, "seeded")


def main():
    args = [a for a in sys.argv[1:] if not a.startswith("--")]
    tier = "quick"
    if "--tier" in sys.argv:
        tier = sys.argv[sys.argv.index("--tier") + 1]
        args = [a for a in args if a != tier]
    names = args or sorted(d for d in os.listdir(SEEDED) if os.path.isdir(os.path.join(SEEDED, d)))
    assert subprocess.run(["git", "-C", "/repo", "status", "--porcelain", "--untracked-files=no"], capture_output=True, text=True).stdout.strip() == "", \
        "/repo has uncommitted changes"
    results = {}
    resfile = os.path.join(SEEDED, "RESULTS.json")
    if os.path.exists(resfile):
        results = json.load(open(resfile))
    evdir = tempfile.mkdtemp(prefix="vf-seeded-ev-", dir="/var/tmp")
    for name in names:
        d = os.path.join(SEEDED, name)
        meta = json.load(open(os.path.join(d, "meta.json")))
        props = meta.get("checked_by") or [meta["property"]]
        r = subprocess.run(["git", "-C", "/repo", "apply", os.path.join(d, "patch.diff")], capture_output=True, text=True)
        if r.returncode != 0:
            results[name] = {"error": "patch does not apply: " + r.stderr[-300:]}
            continue
        out = {}
        try:
            for pid in props:
                t0 = time.time()
                env = dict(os.environ, VF_EVIDENCE_DIR=evdir)
                p = subprocess.run([os.path.join(VERIF, "check"), pid, "--tier", tier], capture_output=True, text=True, env=env, cwd=VERIF)
                viol = [ln for ln in p.stdout.splitlines() if ln.startswith("VIOLATION")]
                tags = sorted({ln.split(":")[0].split()[-1] for ln in p.stdout.splitlines() if ln.startswith("  harness=")})
                detail = [ln.strip()[:300] for ln in p.stdout.splitlines() if ln.startswith("  harness=")][:3]
                out[pid] = {"exit": p.returncode, "violations": len(viol), "detail": detail, "wall_s": round(time.time() - t0, 1),
                            "other": [ln[:300] for ln in p.stdout.splitlines() if ln.startswith(("INCONCLUSIVE", "HARNESS-ERROR"))][:3]}
                print(f"{name}: {pid} exit={p.returncode} violations={len(viol)} wall={out[pid]['wall_s']}s", flush=True)
        finally:
            subprocess.run(["git", "-C", "/repo", "checkout", "--", "."], check=True)
        results[name] = {"property": meta["property"], "tier": tier, "checks": out,
                         "caught": any(v["exit"] == 1 and v["violations"] > 0 for v in out.values())}
        json.dump(results, open(resfile, "w"), indent=1)
    print(json.dumps({k: v.get("caught") for k, v in results.items()}, indent=1))


if __name__ == "__main__":
    main()
