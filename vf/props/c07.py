from vf.runner import H, Spec

QUERIES = ["check", "oids_exist", "status", "checkout", "add_verify"]


def cubes(tier):
    out = []
    for cls in ("local", "base"):
        for q in QUERIES:
            for kind in ("file", "dir"):
                if tier == "quick" and kind == "dir" and q in ("status", "add_verify"):
                    continue
                for state in ((True,) if tier == "quick" else (True, False)):
                    out.append(dict(cls=cls, kind=kind, query=q, state=state, _w=2 if q == "checkout" else 1))
        # index-level fetch from a verifying remote holding a damaged object into a verifying cache
        out.append(dict(cls=cls, kind="file", query="fetch", _w=2))
    return out


SMOKE = dict(tamper=3, restore_mode=False, warm=True, relink=False)

SPEC = Spec(
    pid="C07",
    title="Corrupted objects are detected and dropped, never served; intact ones unharmed",
    harnesses=[
        H("tamper", "vf.harness.c07_corrupt", "h_corrupt", cubes, timeout={"quick": 240, "thorough": 600}, real=True,
          bounds={"quick": "one file object or directory object added through the real add(); tamper pattern (none/truncate/append/same-length rewrite/"
                           "other-length rewrite/replace by rename), protected mode restored or not, hash-state cold or holding the entry from before "
                           "the tampering, relink flag: all symbolic; cubes: store class x {check, oids_exist, status, checkout, verifying add of a corrupt source, index fetch from a verifying remote holding the damaged object}",
                  "thorough": "additionally without a hash-state cache, directory objects for every query"},
          smoke=[{"args": SMOKE, "cube": {"cls": c, "kind": "file", "query": q}} for c in ("local", "base") for q in QUERIES],
          encodes="HashFileDB.check/add/protect, LocalHashFileDB.check/oids_exist/protect/is_protected, hash.hash_file, State.get/save/save_many/_get, "
                  "state._checksum, hashfile.diff.diff/_cache_check, checkout.checkout/_diff/_checkout/Link, status.status, hashfile.load/Tree.load",
          stubs=("model filesystem (logical clock: every write changes mtime, replace changes the inode)", "model hash-state tables")),
    ],
    assumptions=["every content mutation changes size, mtime or inode (stated by the property)",
                 "a tamperer who restores mode 0o444 is outside the claim (the local store trusts write-protected objects by design)"],
    outside=["tampering that preserves size, mtime and inode", "objects larger than one read", "bit rot below the filesystem"],
    explanation="CrossHair runs the real add/check/oids_exist/status/checkout on a model store; tamper pattern, restored mode, cache temperature "
                "are symbolic; oracle from the property: tampered and unprotected => rejected and removed / never materialised; intact => accepted, "
                "byte-identical, read-only after a successful local check.",
)
