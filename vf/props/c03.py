from vf.runner import H, Spec


def n_cubes(tier):
    return [{"n": 3}] if tier == "quick" else [{"n": 3}, {"n": 4}]


def parse_cubes(tier):
    return [{"hash_name": "md5"}, {"hash_name": "md5-dos2unix"}, {"hash_name": "sha256"}, {"hash_name": "md5", "pass_name": True}]


def config_cubes(tier):
    if tier == "quick":
        return [{"perm": 0}, {"perm": 3}]
    return [{"perm": p, "warm": w} for p in range(6) for w in ([0, 0, 0, 0], [1, 0, 0, 1], [0, 1, 1, 0], [1, 1, 1, 1])]


def digest_cubes(tier):
    return n_cubes(tier) + [{"n": 3, "query_first": True}]  # prefix queries on the still-empty tree come first


def one(tier):
    return [{}]


SPEC = Spec(
    pid="C03",
    title="A directory's identifier is a canonical, deterministic function of its contents",
    harnesses=[
        H("order", "vf.harness.c03_tree", "h_order", n_cubes, timeout={"quick": 200, "thorough": 900},
          bounds={"quick": "3 entries (two keys differing only by case, a nested key with a decomposed (NFD) e-acute; its composed twin is the 4th key), symbolic insertion permutation, hash values arbitrary strings (len<=1), Meta fields symbolic",
                  "thorough": "4 entries (24 permutations)"},
          smoke=[{"args": dict(perm=3, v0="a", v1="b", v2="a", v3="", s0=1, s1=2, x0=True, x1=True, m0="q"), "cube": {"n": 3}}],
          encodes="Tree.add, Tree.as_list (sorting, with_meta=False), HashInfo.to_dict"),
        H("digest", "vf.harness.c03_tree", "h_digest", digest_cubes, timeout={"quick": 300, "thorough": 1200},
          bounds={"quick": "3 entries, hash values from a pool of 3 (duplicates), symbolic insertion permutation", "thorough": "4 entries"},
          smoke=[{"args": dict(perm=5, c0=0, c1=1, c2=2, c3=0, x=True), "cube": {"n": 3}}],
          encodes="Tree.digest/as_bytes/as_list, hash.hash_file/_hash_file/file_md5/fobj_md5 over the fsspec memory filesystem"),
        H("inject", "vf.harness.c03_tree", "h_inject", one, timeout={"quick": 300, "thorough": 900},
          bounds={"quick": "two entry sets over 3 keys, presence bits and hash values (str len<=1) symbolic", "thorough": "same"},
          smoke=[{"args": dict(p0=True, p1=True, p2=False, q0=True, q1=True, q2=False, v0="a", v1="b", v2="", w0="a", w1="b", w2="c"), "cube": {}}],
          encodes="Tree.as_list (equality of listings <=> equality of (relpath, hash) sets)",
          stubs=("json.dumps(sort_keys=True) trusted to be injective on such lists",)),
        H("parse", "vf.harness.c03_tree", "h_parse", parse_cubes, timeout={"quick": 120, "thorough": 300},
          bounds={"quick": "<=3 entries, hash values str len 1..2; md5 / md5-dos2unix / sha256 naming", "thorough": "same"},
          smoke=[{"args": dict(p0=True, p1=True, p2=True, v0="a", v1="bb", v2="c"), "cube": {"hash_name": "md5-dos2unix"}}],
          encodes="Tree.as_list, Tree.from_list, HashInfo.from_dict, Meta.from_dict"),
        H("config", "vf.harness.c03_tree", "h_config", config_cubes, timeout={"quick": 400, "thorough": 1200}, real=True,
          bounds={"quick": "4 files (sizes 0..3, nested): large-file threshold 0..4, jobs in {None,1,2,3}, completion order of the unordered pool "
                           "(2 of 6 permutations), warm/cold state for the first and last file, directory listing order flipped or not",
                  "thorough": "all 6 completion orders x 4 warm masks"},
          smoke=[{"args": dict(thr=1, jobs=2, perm=3, w0=True, w1=False, w2=True, w3=False, rev=True), "cube": {}}],
          encodes="build._build_files/_get_hashes/_hash_files/_build_tree/_walk_files/build, State.get_many/save_many, hash.hash_file",
          stubs=("dvc_objects ThreadPoolExecutor in build.py -> serial executor yielding in a chosen permutation (imap_unordered's contract)",
                 "model filesystem with reversible listing order", "model hash-state tables")),
        H("subtree", "vf.harness.c03_tree", "h_subtree", one, timeout={"quick": 200, "thorough": 600}, real=True,
          bounds={"quick": "tree over a, d/b, d/e/c (empty), d/e/g with symbolic presence; every prefix incl. a file prefix and an absent one", "thorough": "same"},
          smoke=[{"args": dict(p0=True, p1=True, p2=True, p3=True), "cube": {}}],
          encodes="Tree.get_obj/digest/_trie, build.build on the sub-directory"),
    ],
    assumptions=["key parts contain no '/' (C20/C02 key kernels)", "json.dumps is deterministic and injective on lists of flat string dictionaries",
                 "thread completion order is abstracted by the permutation stub"],
    outside=["more than 4 entries", "real thread timing", "files above the real 1 MiB threshold (the threshold is a symbolic small int here)"],
    explanation="CrossHair runs the real Tree.add/as_list/digest/from_list/get_obj and the staging code with insertion order, hash values, metadata, "
                "job count, large-file threshold, pool completion order, cache temperature and listing order symbolic; oracle = independent canonical encoder.",
)
