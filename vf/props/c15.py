from vf.runner import H, Spec

SCEN = ["stage", "upload", "save", "store2store"]


def cubes(tier):
    if tier == "quick":
        return [dict(scenario=s, cls="local", lo=lo, hi=lo + 20, _w=2) for s in SCEN for lo in (0, 20, 40)] + \
               [dict(scenario=s, cls="local", lo=lo, hi=lo + 30, interrupt=True, _w=2) for s in SCEN for lo in (0, 30)]
    out = []
    for shape in ([1, 1, 1, 0], [1, 1, 1, 1], [1, 0, 0, 1], [0, 1, 0, 0]):
        for s in SCEN:
            for c in ("local",):
                out += [dict(scenario=s, cls=c, lo=lo, hi=lo + 20, shape=shape, _w=2) for lo in (0, 20, 40)]
                out += [dict(scenario=s, cls=c, lo=lo, hi=lo + 30, shape=shape, interrupt=True, _w=2) for lo in (0, 30)]
    return out


SPEC = Spec(
    pid="C15",
    title="A crash at any point leaves the store valid, and re-running recovers",
    harnesses=[
        H("crash", "vf.harness.c15_crash", "h_crash", cubes, timeout={"quick": 400, "thorough": 900},
          bounds={"quick": "4 scenarios (stage+transfer into a store with state, upload staging, index save of nested directories, store-to-store transfer) "
                           "into a local store (LocalHashFileDB, as the property states) on a tree of 3 files (one empty, one CRLF, nested); crash index symbolic over EVERY primitive mutation "
                           "of the uninterrupted run (17-32 per scenario: mkdir, create, write, rename, chmod, link, unlink, state commit)",
                  "thorough": "4 tree shapes incl. duplicate contents and deeper nesting"},
          smoke=[{"args": {"k": 7}, "cube": {"scenario": s, "cls": "local", "lo": 0, "hi": 40}} for s in SCEN],
          encodes="build.build/_build_tree/_build_files/_upload_file, HashFileDB.add/check/protect, LocalHashFileDB.protect/check/oids_exist, "
                  "transfer.transfer/_do_transfer/_add, State.save_many/get_many, index.save.save/_save_dir_entry, add_update_tree, "
                  "dvc_objects generic.transfer/_put/_get/as_atomic and ObjectDB.add on the model fs",
          stubs=("model filesystem with a mutation log; process death = Crash(BaseException) at the k-th primitive, model frozen afterwards "
                 "(kill); `interrupt` cubes: same exception but the model stays live while the stack unwinds (death by SIGINT/KeyboardInterrupt: "
                 "finally blocks and BaseException handlers still act)",
                 "create/truncate and content write are separate crash points", "state table commit is one atomic crash point (SQLite transaction)")),
    ],
    assumptions=["rename is atomic; a single write primitive is all-or-nothing (torn writes inside one write are outside the model)",
                 "SQLite transactions are atomic and durable", "in-memory staging is lost at the crash and rebuilt by the re-run"],
    outside=["the base HashFileDB class placed on a *local* filesystem (not a configuration get_odb() produces): its existence query is not an "
             "integrity check, so a leftover of the in-place reflink probe survives a re-run there", "fsync / power-loss reordering", "torn writes", "crashes inside SQLite", "the real syscall granularity (the model's primitives stand in for it; "
             "counterexamples are replayed concretely on the model, not by killing a real process)"],
    explanation="CrossHair runs the real staging/add/transfer/save code on the model filesystem with the crash index symbolic over the whole mutation "
                "log; in the crashed (frozen) state every object is re-hashed, protection bits and state rows are checked and every directory object's "
                "children are looked up; then the operation is re-run with fresh in-memory objects and must converge to the uninterrupted result.",
)

MANIFEST = {"technique": "symbolic execution (CrossHair + z3) of the real staging/add/transfer/save code on a model filesystem with the crash index symbolic "
                         "over the whole mutation log; crashed state audited, re-run must converge"}
