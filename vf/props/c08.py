from vf.runner import H, Spec

# presence patterns (p, has_meta, has_hash) per side; an absent entry has no variants
SIDE = [(0, 0, 0)] + [(1, m, h) for m in (0, 1) for h in (0, 1)]
PRES = [list(a + b) for a in SIDE for b in SIDE]
MODES_Q = [dict(), dict(hash_only=True), dict(meta_only=True, cmp="exec")]
MODES_T = [dict(), dict(hash_only=True), dict(meta_only=True), dict(cmp="exec"), dict(meta_only=True, cmp="exec"),
           dict(cmp="size"), dict(hash_only=True, meta_only=True)]


def cubes_entry(tier):
    if tier == "quick":
        return [dict(pres=p, fixname=True, fixmd5=True, **m) for p in PRES for m in MODES_Q]
    return [dict(pres=p, fixname=True, **m) for p in PRES for m in MODES_T]


def cubes_entry_full(tier):
    # hash names symbolic too (None / "" / one char) - only the patterns where both sides carry a hash object
    if tier == "quick":
        return []
    return [dict(pres=p, **m) for p in PRES if p[2] and p[5] for m in (dict(), dict(hash_only=True))]


AK = ["none", "absent", "file", "dir", "dirh"]
PAIRS_Q = [["dirh", "dirh"], ["dir", "dir"], ["absent", "dir"], ["dir", "file"], ["file", "dirh"], ["none", "dirh"],
           ["dir", "none"], ["absent", "absent"], ["file", "file"]]
PAIRS_T = [[a, b] for a in AK for b in AK if not (a == "none" and b == "none")]
WMODES_Q = [dict(mode="default", with_unchanged=True), dict(mode="hash_only", with_unchanged=False)]
WMODES_T = [dict(mode=m, with_unchanged=w) for m in ("default", "hash_only", "meta_only") for w in (False, True)]


def cubes_walk(tier):
    if tier == "quick":
        return [dict(akind=p, nchildren=1, **m) for p in PAIRS_Q for m in WMODES_Q] + \
               [dict(akind=["dirh", "dirh"], nchildren=1, mode=m, with_unchanged=False) for m in ("default", "meta_only")]
    return [dict(akind=p, nchildren=1, **m) for p in PAIRS_T for m in WMODES_T] + \
           [dict(akind=p, nchildren=2, **m) for p in (["dirh", "dirh"], ["dir", "dirh"], ["absent", "dir"]) for m in WMODES_Q]


def cubes_ren(tier):
    if tier == "quick":
        return [dict(nren=2, order=o) for o in (0, 1)]
    return [dict(nren=2, order=o, npool=3) for o in (0, 1)] + [dict(nren=3, order=o, npool=2) for o in (0, 1)]


E_SMOKE = {"p1": True, "m1": True, "d1": False, "sn1": False, "s1": 3, "x1": False, "cn1": True, "c1": "", "h1": True, "nn1": False,
           "n1": "md5", "vn1": False, "v1": "a", "p2": True, "m2": True, "d2": False, "sn2": False, "s2": 3, "x2": True, "cn2": True,
           "c2": "", "h2": True, "nn2": False, "n2": "md5", "vn2": False, "v2": "b"}
W_SMOKE = {"op0": True, "op1": True, "op2": False, "np0": True, "np1": False, "np2": False, "on0": False, "on1": False, "on2": False,
           "nn0": False, "nn1": False, "nn2": False, "ov0": "p", "ov1": "q", "ov2": "", "nv0": "p", "nv1": "", "nv2": "",
           "ox0": False, "ox1": False, "ox2": False, "nx0": True, "nx1": False, "nx2": False, "oah": "", "nah": "", "oax": False,
           "nax": False, "od": "D", "nd": "E"}

SPEC = Spec(
    pid="C08",
    title="Index diff is exact: every key once, correctly classified, renames paired",
    harnesses=[
        H("entry", "vf.harness.c08_entry", "h_entry", cubes_entry,
          timeout={"quick": 60, "thorough": 400},
          bounds={"quick": "both entries symbolic: presence pattern = cube (25), Meta{isdir,size?,isexec} and hash value (None or str, len<=1) "
                           "symbolic, hash name fixed 'md5', md5 field None; modes default / hash_only / meta_only+exec-key",
                  "thorough": "as quick plus Meta.md5 (None or str len<=1) symbolic, 7 option combinations"},
          smoke=[{"args": E_SMOKE, "cube": {}}],
          encodes="index.diff._diff_entry/_diff_meta/_diff_hash_info, attrs-generated Meta/HashInfo equality"),
        H("entry-names", "vf.harness.c08_entry", "h_entry", cubes_entry_full,
          timeout={"quick": 60, "thorough": 900},
          bounds={"quick": "(thorough only)", "thorough": "hash *names* symbolic too (None / str len<=1) for patterns where both sides carry a hash object"},
          smoke=[{"args": E_SMOKE, "cube": {}}],
          encodes="as entry"),
        H("walk", "vf.harness.c08_walk", "h_walk", cubes_walk,
          timeout={"quick": 240, "thorough": 900},
          bounds={"quick": "keys a, a/x, b; kind of `a` per side = cube (no index / absent(implicit dir) / file / dir / hashed dir); presence, "
                           "exec bit, hash values (None / str len<=1) symbolic; 9 kind pairs x 2 option sets",
                  "thorough": "all 24 kind pairs x 6 option sets, plus a/y for three pairs"},
          smoke=[{"args": W_SMOKE, "cube": {"akind": ["dirh", "dirh"], "mode": "hash_only"}},
                 {"args": W_SMOKE, "cube": {"akind": ["dir", "file"], "mode": "default", "with_unchanged": True}}],
          encodes="index.diff.diff/_diff/_get_items/_diff_entry, DataIndex.info/ls/__getitem__/_info_from_entry (pygtrie-backed)",
          stubs=("directory digest = symbolic string constrained injective in the children listing",)),
        H("renames", "vf.harness.c08_walk", "h_renames", cubes_ren,
          timeout={"quick": 150, "thorough": 1500},
          bounds={"quick": "<=2 adds and <=2 deletes, each absent / no hash / one of 2 pool hashes, optional unrelated modify, both input orders",
                  "thorough": "2 with pool of 3; 3 adds x 3 deletes with pool of 2"},
          smoke=[{"args": {"a0": 2, "a1": 3, "a2": 0, "d0": 3, "d1": 2, "d2": 0, "mod": True}, "cube": {"nren": 2}}],
          encodes="index.diff._detect_renames, Change.key"),
    ],
    assumptions=["hash values and names are arbitrary short strings (the diff only compares them)",
                 "directory digests are injective in the listing (C03 decides that separately)",
                 "hashed directories list only hashed files (what build_tree/save produce)"],
    outside=["strings longer than 1 character (equality patterns are already complete with 1)", "more than 2 children / 3 renames",
             "`shallow` and `with_unknown` options, `roots`", "SQLite-backed indexes"],
    explanation="CrossHair executes the real _diff_entry and the real breadth-first diff over pygtrie-backed DataIndex objects with entry "
                "fields, presence bits and hash strings symbolic; each cube (structure/options) is explored until the path tree is exhausted; "
                "oracle = implications taken from the property over a flat dictionary reference.",
)
