from vf.runner import H, Spec

POLICIES = [None, ["add"], ["remove"], ["change"], ["add", "remove"], ["add", "change"], ["remove", "change"],
            ["add", "remove", "change"]]


def cubes_k2(tier):
    return [{"nkeys": 2, "allowed": p} for p in POLICIES]


def cubes_k3(tier):
    if tier == "quick":
        return [{"nkeys": 3, "allowed": p} for p in (None, ["add", "remove", "change"])]
    return [{"nkeys": 3, "allowed": p} for p in POLICIES]


def cubes_api(tier):
    if tier == "quick":
        return [{"allowed": p, "pool": 2, "anc": [a0, a1]} for p in (None, ["add", "remove", "change"])
                for a0 in range(3) for a1 in range(3)]
    return [{"allowed": p, "pool": 3, "anc": [a0, a1]} for p in POLICIES for a0 in range(4) for a1 in range(4)]


S0 = dict(pa0=True, pa1=False, po0=True, po1=True, pt0=True, pt1=False, va0="x", va1="", vo0="x", vo1="y", vt0="z", vt1="")

SPEC = Spec(
    pid="C19",
    title="Three-way directory merge never silently loses or overrides an entry",
    harnesses=[
        H("merge-kernel-2keys", "vf.harness.c19_merge", "h_merge2", cubes_k2,
          timeout={"quick": 150, "thorough": 400},
          bounds={"quick": "2 keys (one nested), each of ancestor/ours/theirs absent-or-symbolic-str value, 8 policies",
                  "thorough": "same, larger budget"},
          smoke=[{"args": S0, "cube": {"nkeys": 2, "allowed": ["add", "change"]}}],
          encodes="tree._merge, tree._diff, dictdiffer.diff/patch (real dependency)"),
        H("merge-kernel-3keys", "vf.harness.c19_merge", "h_merge3", cubes_k3,
          timeout={"quick": 120, "thorough": 1800},
          bounds={"quick": "3 keys, default and full policy", "thorough": "3 keys, all 8 policies"},
          smoke=[{"args": dict(pa0=True, pa1=False, pa2=True, po0=True, po1=True, po2=False, pt0=True, pt1=False, pt2=True,
                               va0="x", va1="", va2="q", vo0="x", vo1="y", vo2="", vt0="z", vt1="", vt2="q"),
                  "cube": {"nkeys": 3, "allowed": None}}],
          encodes="tree._merge, tree._diff, dictdiffer.diff/patch"),
        H("merge-api", "vf.harness.c19_merge", "h_merge_api", cubes_api,
          timeout={"quick": 150, "thorough": 400},
          bounds={"quick": "2 keys, each side absent or one of 2 pool hashes (ancestor choice = cube), default + full policy",
                  "thorough": "2 keys, pool of 3 hashes, all 8 policies"},
          smoke=[{"args": dict(o0=1, o1=2, t0=1, t1=3), "cube": {"allowed": None, "pool": 3, "anc": [1, 0]}}],
          encodes="tree.merge, hashfile.load, Tree.load/from_list/digest/as_bytes, HashFileDB.add on fsspec memory fs"),
    ],
    assumptions=["dictdiffer and json are executed for real (not modelled)", "hash values are arbitrary strings (only compared)"],
    outside=["more than 3 keys per listing", "Meta objects inside entries (None here; they are compared atomically like the hash)"],
    explanation="CrossHair executes the real _merge/_diff (and the real dictdiffer) with presence bits and hash values of "
                "ancestor/ours/theirs symbolic; z3 decides every equality the code tests, so every equality pattern over the key "
                "universe is covered per policy cube; oracle = per-key three-way rule; only MergeError may escape.",
)
