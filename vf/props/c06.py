from vf.runner import H, Spec

CLS = ["local", "base", "remote"]
LISTINGS_Q = [[[0, 1]], [[0], [0, 2]]]
LISTINGS_T = [[[0, 1]], [[0], [0, 2]], [[0, 1, 2], []], [[0, 0]], [[1], [1]]]


def cubes(tier):
    if tier == "quick":
        out = [dict(listing=[[0, 1]], nfiles=3, cls=c, shallow=s) for c in CLS for s in (True, False)]
        out += [dict(listing=[[0], [0, 1]], nfiles=2, cls=c, shallow=s) for c in CLS for s in (True, False)]
        out += [dict(listing=[[0, 1]], nfiles=2, cls=c, shallow=False, alien=True) for c in ("local", "remote")]
        out += [dict(listing=[[0]], nfiles=1, cls=c, shallow=True, ro=True) for c in CLS]
        out += [dict(listing=[[0], [0, 1]], nfiles=2, cls=c, shallow=False, cache=True) for c in ("local", "remote")]  # listings from cache_odb
        return out
    out = [dict(listing=l, cls=c, shallow=s, nfiles=3, alien=a, _w=len(l)) for l in LISTINGS_T for c in CLS for s in (True, False)
           for a in (False, True)]
    out += [dict(listing=[[0, 1]], nfiles=2, cls=c, shallow=s, ro=True) for c in CLS for s in (True, False)]
    out += [dict(listing=l, cls=c, shallow=False, nfiles=3, cache=True, _w=len(l)) for l in LISTINGS_T for c in CLS]
    return out


SMOKE = dict(s0=True, s1=True, s2=True, sd0=True, sd1=False, u0=False, u1=False, u2=False, ud0=True, ud1=False, alien=True, dry=False, ro=False)

SPEC = Spec(
    pid="C06",
    title="Garbage collection removes exactly the unused objects and never a used one",
    harnesses=[
        H("gc", "vf.harness.c06_gc", "h_gc", cubes, timeout={"quick": 300, "thorough": 900}, real=True,
          bounds={"quick": "3 files (one empty) + 1..2 directory objects (shared file); per object: stored?, used? (used ids absent from the store "
                           "included), dry symbolic; cubes: 3 store kinds x shallow/expanding, used ids of another algorithm with the same value, "
                           "read-only store, listings supplied by a separate cache_odb",
                  "thorough": "5 listing shapes (empty directory, repeated file, identical listings)"},
          smoke=[{"args": SMOKE, "cube": {"listing": [[0, 1]], "cls": "local", "shallow": False}},
                 {"args": SMOKE, "cube": {"listing": [[0], [0, 2]], "cls": "remote", "shallow": True}}],
          encodes="hashfile.gc.gc, Tree.load/from_list, ObjectDB.all/_list_oids/_list_prefixes/_estimate_remote_size/_list_oids_traverse/path_to_oid, "
                  "LocalHashFileDB._remove_unpacked_dir, fs.remove on the model",
          stubs=("model local filesystem / model remote", "progress bar silenced")),
    ],
    assumptions=["directory objects in the store are well-formed JSON listings"],
    outside=["more than 3 files / 2 directory objects", "stores too large for the small-remote listing path "
             "(prefix-parallel traversal is not reached with < 256 pages)"],
    explanation="CrossHair runs the real gc() on model stores with store contents, used set, dry and read-only flags symbolic; oracle = set "
                "difference computed independently from a direct listing of the store before/after.",
)
