from vf.props.c01 import OPS_ENC, SMOKE
from vf.runner import H, Spec

COMBOS = [("local", "copy", False), ("local", "hardlink", True), ("local", "symlink", False), ("base", "copy", True), ("base", "hardlink", False)]


def cubes(tier):
    if tier == "quick":
        out = [dict(ops="S", cls=c, link=l, state=st, names=n, prop="C02", _w=2) for c, l, st in COMBOS for n in (0, 1)]
        out += [dict(ops="SX", cls="local", link="copy", names=2, prop="C02", depth=[2, 2, 0], _w=3),
                dict(ops="U", cls="local", link="copy", names=1, prop="C02", depth=[0, 0, 1], _w=3),
                dict(ops="S", cls="local", link="copy", names=0, prop="C02", depth=[1, 2, 0], trailing=True, _w=2),
                dict(ops="S", cls="local", link="copy", names=3, prop="C02", depth=[0, 0, 0], _w=2)]  # dot-files at the top of the tree
        return out
    out = [dict(ops=o, cls=c, link=l, state=st, names=n, prop="C02", depth=d, _w=3)
           for o in ("S", "SX", "U") for c in ("local", "base") for l in ("copy", "hardlink", "symlink") for st in (False, True)
           for n, d in ((0, [0, 1, 2]), (1, [2, 2, 0]), (2, [1, 1, 1]))]
    out += [dict(ops="S", cls=c, link="copy", names=n, prop="C02", depth=[1, 2, 0], trailing=True, _w=2) for c in ("local", "base") for n in (0, 1, 2)]
    out += [dict(ops=o, cls=c, link="copy", names=3, prop="C02", depth=d, _w=2) for o in ("S", "U") for c in ("local", "base") for d in ([0, 0, 0], [0, 0, 1])]
    return out


def cubes_keys(tier):
    return [{"klen": 1}] if tier == "quick" else [{"klen": 1}, {"klen": 2}]


SPEC = Spec(
    pid="C02",
    title="Stage -> store -> checkout round trip reproduces the data exactly",
    harnesses=[
        H("roundtrip", "vf.harness.c01_ops", "h_ops", cubes, timeout={"quick": 500, "thorough": 1500}, real=True,
          bounds={"quick": "source tree of 1..3 files at depths 0/1/2 + an empty directory, contents {empty, CRLF text, binary, duplicate}, plain and odd "
                           "names (non-ASCII, space, backslash, '.dir'); stage -> transfer -> object checkout into a fresh location AND index build/"
                           "save/compare/apply into another; 5 (store class, link type, state) combinations",
                  "thorough": "3 routes (stage, store->store, upload) x 2 classes x 3 link types x state on/off x 3 name/depth sets"},
          smoke=[{"args": SMOKE, "cube": {"ops": "S", "cls": "local", "link": "hardlink", "names": 1, "prop": "C02", "state": True}}],
          encodes=OPS_ENC + ", checkout.checkout/_checkout/_checkout_file/Link, hashfile.diff.diff, index.checkout.compare/apply/_create_files/_create_dirs",
          stubs=("model filesystem / model os", "model hash-state tables")),
        H("key-join-split", "vf.harness.c20_serial", "h_key", cubes_keys, timeout={"quick": 90, "thorough": 900},
          bounds={"quick": "relative-path <-> key tuple conversion for 1..3 arbitrary parts without '/' of length <= 1", "thorough": "length <= 2"},
          smoke=[{"args": {"a": "x", "b": "é ", "c": "", "n": 2}, "cube": {}}],
          encodes="posix '/' join / split as used by Tree.as_list / Tree.from_list (string kernel, fully symbolic parts)"),
    ],
    assumptions=["no symlinks / special files inside the source", "no ignore filters"],
    outside=["names longer than the bound or containing '/'", "trees with more than 3 files", "reflink"],
    explanation="CrossHair runs the real build -> transfer -> checkout (object level) and build -> md5 -> save -> compare -> apply (index level) "
                "on the model filesystem with tree shape and contents symbolic; oracle: walk of the fresh checkout location equals the generated "
                "{relative path: bytes}; reloaded listing equals the built one; reported nfiles/size equal the data.",
)
