from vf.runner import H, Spec


def _split(base, pairs):
    out = []
    for ka, ta in pairs:
        if ka == 2 and ta == 2:
            out += [dict(base, ka=ka, ta=ta, kd=kd, _w=3) for kd in (0, 1)]
        else:
            out.append(dict(base, ka=ka, ta=ta, _w=2 if 2 in (ka, ta) else 1))
    return out


ALL = [(k, t) for k in range(3) for t in range(3)]
HOT = [(2, 2), (2, 1), (1, 2), (2, 0)]


def cubes(tier):
    if tier == "quick":
        out = _split(dict(link="copy", delete=True, form="explicit"), ALL)
        out += _split(dict(link="copy", delete=False, form="explicit"), HOT)
        out += _split(dict(link="copy", delete=True, form="lazy"), [(0, 2), (1, 2), (2, 2)])
        out += _split(dict(link="hardlink", delete=True, form="explicit"), [(2, 1), (1, 2)])
        out += _split(dict(link="symlink", delete=True, form="explicit"), [(2, 1), (1, 2)])
        out += _split(dict(link="copy", delete=True, form="explicit", unavail=True), [(0, 2), (2, 1)])
        out += _split(dict(link="copy", delete=True, form="lazy", oldhash=False), [(2, 2), (1, 2)])
        out += _split(dict(link="copy", delete=True, form="lazy", deep=True), [(0, 2), (2, 2)])
        out += _split(dict(link="copy", delete=True, form="explicit", oldhash=False), [(2, 1), (1, 2)])
        out += _split(dict(link="copy", delete=True, form="explicit", dangling=True), [(2, 1), (2, 0), (0, 1)])
        # a symlink to a directory outside the workspace (with user data in it) left in the workspace
        out += _split(dict(link="copy", delete=True, form="explicit", dirlink=True), [(0, 1), (2, 1)])
        out += _split(dict(link="copy", delete=False, form="explicit", dirlink=True), [(0, 1)])
        return out
    out = []
    for link in ("copy", "hardlink", "symlink"):
        for form in ("explicit", "lazy"):
            for delete in (True, False):
                out += _split(dict(link=link, delete=delete, form=form), ALL if form == "explicit" else [(k, 2) for k in range(3)])
    out += _split(dict(link="copy", delete=True, form="explicit", unavail=True), ALL)
    out += _split(dict(link="copy", delete=False, form="explicit", unavail=True), ALL)
    out += _split(dict(link="copy", delete=True, form="lazy", unavail=True), [(k, 2) for k in range(3)])
    out += _split(dict(link="copy", delete=True, form="lazy", deep=True), [(k, 2) for k in range(3)])
    out += _split(dict(link="copy", delete=True, form="explicit", deep=True), [(k, 2) for k in range(3)])
    for form in ("explicit", "lazy"):
        for delete in (True, False):
            out += _split(dict(link="copy", delete=delete, form=form, oldhash=False), ALL if form == "explicit" else [(k, 2) for k in range(3)])
    out += _split(dict(link="copy", delete=True, form="explicit", dangling=True), ALL)
    out += _split(dict(link="symlink", delete=True, form="lazy", dangling=True), [(k, 2) for k in range(3)])
    for delete in (True, False):
        out += _split(dict(link="copy", delete=delete, form="explicit", dirlink=True), ALL)
    return out


SMOKE = dict(pa=2, pb=2, pc=1, pd=1, ta=1, tb=0, tc=0, td=1, sa=False, sb=False, sc=True, sd=False, xa=True, xd=False, ub=False, ud=False)
SMOKE2 = dict(pa=1, pb=0, pc=0, pd=0, ta=2, tb=2, tc=1, td=1, sa=False, sb=False, sc=True, sd=False, xa=True, xd=True, ub=False, ud=False)

SPEC = Spec(
    pid="C09",
    title="Index checkout converges to the target from any workspace state",
    harnesses=[
        H("converge", "vf.harness.c09_icheckout", "h_converge", cubes, timeout={"quick": 400, "thorough": 1200}, real=True,
          bounds={"quick": "nodes a, a/b, a/b/c, d: prior and target each absent/file/directory per node (every file<->directory replacement to depth 2), "
                           "prior bytes same/different, exec bit; copy link: all 9 (kind of a) pairs with delete; delete off, lazily loaded directory "
                           "object, hardlink/symlink and unavailable-source cubes on the replacement-heavy pairs",
                  "thorough": "all pairs for 3 link types x explicit/lazy x delete on/off, unavailable sources everywhere"},
          smoke=[{"args": SMOKE, "cube": {"link": "copy"}}, {"args": SMOKE2, "cube": {"link": "hardlink", "form": "lazy"}}],
          encodes="index.checkout.compare/_compare/apply/_delete_files/_delete_dirs/_create_dirs/_create_files/_chmod_files, index.diff.diff/_diff/"
                  "_diff_entry, index.build.build_entries/safe_walk, hashfile.build._get_hashes/_hash_files, hash_file, DataIndex.__getitem__/_load/"
                  "ls/info, _load_from_object_storage, Tree.load, StorageMapping, generic.transfer (dvc_objects) on the model fs",
          stubs=("model local filesystem + model os.stat/os.chmod", "progress bars/logging silenced")),
    ],
    assumptions=["target data (except symbolically unavailable files) is present and intact in the cache",
                 "no special files in the prior workspace; symlinks only as the dangling links of the `dangling` cubes (one at the root, one inside directory a) and the link to an outside directory of the `dirlink` cubes"],
    outside=["trees deeper than 3 levels or wider than the 4-node universe", "SQLite-backed indexes", "FileStorage targets / cloud filesystems",
             "observed but outside the statement: apply() raises FileNotFoundError from _chmod_files after reporting an unavailable executable entry"],
    explanation="CrossHair runs the real build_entries/compare/apply on the model workspace with prior and target tree shapes, content-equality, "
                "exec and availability bits symbolic (small ints/bools decided at the branches that use them); oracle: workspace walk vs the "
                "generated target, and a second compare (old side rebuilt with hashes) must have empty action lists.",
)
