from vf.props.c05 import ENC
from vf.runner import H, Spec

LINKS = ["copy", "hardlink", "symlink"]


def cubes(tier):
    if tier == "quick":
        out = [dict(cls="local", link=l, prior_link=pl, state=True, nkeys=2) for l in LINKS for pl in LINKS]
        out += [dict(cls="base", link=l, prior_link=pl, state=False, nkeys=2) for l, pl in (("copy", "symlink"), ("hardlink", "copy"), ("symlink", "hardlink"))]
        # three files, two with the same content: a hard-linked duplicate has a link count of 3 or more
        out += [dict(cls=c, link="copy", prior_link="hardlink", state=True, nkeys=3, _w=3) for c in ("local", "base")]
        out += [dict(cls="local", link="hardlink", prior_link="copy", state=True, nkeys=3, _w=3)]
        # a symlink to a cache object that already has other hard links (duplicate content) must still be re-linked as a hardlink
        out += [dict(cls="local", link="hardlink", prior_link="symlink", state=True, nkeys=3, _w=3)]
        return out
    out = [dict(cls=c, link=l, prior_link=pl, state=st, nkeys=2) for c in ("local", "base") for l in LINKS for pl in LINKS for st in (True, False)]
    out += [dict(cls="local", link=l, prior_link=pl, state=True, nkeys=3, _w=3) for l in LINKS for pl in LINKS]
    return out


SMOKE = dict(s0=1, s1=2, s2=1, stray=True)

SPEC = Spec(
    pid="C10",
    title="Object checkout converges, is idempotent, honours link types, spares the cache",
    harnesses=[
        H("force-relink", "vf.harness.c05_checkout", "h_force", cubes, timeout={"quick": 300, "thorough": 1200}, real=True,
          bounds={"quick": "target tree over a, d/b (empty file); per key the prior workspace holds nothing / the target content materialised as the "
                           "prior link type / other bytes; optional stray file; forced checkout, second checkout, relinking checkout; all 9 "
                           "(existing, configured) link-type pairs on a local store with state + 3 pairs on the base store",
                  "thorough": "both store classes x 9 pairs x state on/off; 3 keys with a duplicate content"},
          smoke=[{"args": SMOKE, "cube": {"cls": "local", "link": l, "prior_link": "hardlink", "state": True, "nkeys": 3}} for l in LINKS],
          encodes=ENC, stubs=("model filesystem with inode/nlink/symlink model", "reflink modelled as unsupported (ENOTSUP)", "model hash-state tables")),
    ],
    assumptions=["prior paths agree in kind with the target", "the cache holds the target objects intact"],
    outside=["reflink", "Windows path handling", "more than 3 files"],
    explanation="CrossHair runs three real checkouts (forced, repeated, relinking) per path on the model workspace with the prior state symbolic; oracle: "
                "workspace walk == target, second checkout returns None and changes nothing, link type by inode/nlink/readlink comparison against "
                "the cache path, cache bytes identical before/after, saved link record == (inode, mtime token) recomputed.",
)
