import itertools

from vf.runner import H, Spec


def cubes_meta(tier):
    if tier == "quick":
        out = []
        for free in itertools.combinations(range(5), 2):
            out.append({"nonefix": [None if i in free else True for i in range(5)]})
        out.append({"nonefix": [False, False, False, True, True]})
        out.append({"nonefix": [True, True, False, False, False]})
        return out
    return [{"nonefix": list(f)} for f in itertools.product([True, False], repeat=5)]


def one(tier):
    return [{}]


def cubes_key(tier):
    if tier == "quick":
        return [{"klen": 1}]
    return [{"klen": 1}, {"klen": 2}]


def cubes_listing(tier):
    return [{"hash_name": n} for n in ("md5", "md5-dos2unix", "etag")]


def cubes_forms(tier):
    forms = ("json", "db", "trie")
    if tier == "quick":
        return [{"form": f, "nkeys": 1, "koff": k} for f in forms for k in (1, 3)] + [{"form": "trie", "nkeys": 1, "koff": k, "mutate": True} for k in (0, 1)]
    return [{"form": f, "nkeys": 1, "koff": k} for f in forms for k in range(4)] + \
           [{"form": f, "nkeys": 2, "koff": k} for f in forms for k in (0, 1, 2)] + [{"form": "trie", "nkeys": 1, "koff": k, "mutate": True} for k in range(4)]


IF_SMOKE = {"pr0": True, "pr1": True, "pr2": True, "pr3": True, "m0": 1, "m1": 2, "m2": 1, "m3": 0, "s0": 1, "s1": 0, "s2": 2, "s3": 0,
            "x0": True, "x1": False, "x2": False, "x3": False, "h0": 2, "h1": 3, "h2": 1, "h3": 2, "l0": 0, "l1": 2, "l2": 1, "l3": 0}

SPEC = Spec(
    pid="C20",
    title="Index and entry serialisation round-trips",
    harnesses=[
        H("meta-dict", "vf.harness.c20_serial", "h_meta", cubes_meta, timeout={"quick": 150, "thorough": 300},
          bounds={"quick": "isdir/isexec bool, size/nfiles None-or-int, 5 string fields each None or str(len<=1): all pairs of string fields "
                           "free (others None) + two mixed cubes",
                  "thorough": "all 32 None/non-None patterns of the 5 string fields, values symbolic"},
          smoke=[{"args": {"isdir": True, "sn": False, "size": 0, "nn": True, "nfiles": 0, "isexec": False, "vn": False, "version_id": "",
                           "en": True, "etag": "", "cn": False, "checksum": "c", "mn": True, "md5": "", "rn": True, "remote": ""}, "cube": {}}],
          encodes="Meta.to_dict, Meta.from_dict"),
        H("hashinfo-dict", "vf.harness.c20_serial", "h_hashinfo", one, timeout={"quick": 60, "thorough": 120},
          bounds={"quick": "name from {None,'',md5,sha256,md5-dos2unix,etag}, value None or str(len<=2)", "thorough": "same"},
          smoke=[{"args": {"ni": 2, "vn": False, "value": "ab"}, "cube": {}}], encodes="HashInfo.to_dict/from_dict/__bool__"),
        H("entry-dict", "vf.harness.c20_serial", "h_entry", one, timeout={"quick": 150, "thorough": 400},
          bounds={"quick": "meta absent/present{isdir,size?,isexec,md5?}, hash absent/present{6 names, value None or str len<=2}, loaded in {None,False,True}",
                  "thorough": "same"},
          smoke=[{"args": {"has_meta": True, "isdir": False, "sn": False, "size": 0, "isexec": True, "mn": True, "md5": "", "has_hi": True,
                           "ni": 2, "vn": False, "value": "x", "li": 1}, "cube": {}}],
          encodes="DataIndexEntry.to_dict/from_dict, Meta/HashInfo dict forms"),
        H("key-join-split", "vf.harness.c20_serial", "h_key", cubes_key, timeout={"quick": 90, "thorough": 900},
          bounds={"quick": "1..3 parts, each an arbitrary string without '/' of length <= 1", "thorough": "length <= 2"},
          smoke=[{"args": {"a": "x", "b": "é ", "c": "", "n": 2}, "cube": {}}],
          encodes="the '/'.join / split pair used by serialize.py and tree.py (string kernel)"),
        H("listing-with-meta", "vf.harness.c20_serial", "h_listing", cubes_listing, timeout={"quick": 120, "thorough": 300},
          bounds={"quick": "<=3 entries (nested, non-ASCII key), size None-or-int, isexec, hash value str len 1..2; 3 hash names", "thorough": "same"},
          smoke=[{"args": {"p0": True, "p1": True, "p2": True, "s0": 1, "s1": 0, "s2": 5, "sn0": False, "sn1": True, "sn2": False, "x0": True,
                           "x1": False, "x2": False, "v0": "h", "v1": "i", "v2": "jj"}, "cube": {"hash_name": "md5-dos2unix"}}],
          encodes="Tree.as_list(with_meta), Tree.from_list(hash_name), Meta.to_dict/from_dict"),
        H("index-forms", "vf.harness.c20_serial", "h_index_forms", cubes_forms, timeout={"quick": 200, "thorough": 900},
          bounds={"quick": "one entry at a directory key / a nested non-ASCII key; meta {none,file,dir} x size {None,0,7} x exec, hash {none,'',abc,abc.dir}, "
                           "loaded {None,False,True}; forms: JSON text, key-value db, JSON-valued trie after close",
                  "thorough": "every key of the 4-key universe alone, and pairs of keys (budgeted)"},
          smoke=[{"args": IF_SMOKE, "cube": {"form": f, "nkeys": 4}} for f in ("json", "db", "trie")],
          encodes="serialize.write_json/read_json/write_db/read_db, DataIndexTrie._load/_dump/__setitem__/close, DataIndex.iteritems/add",
          stubs=("open() in serialize.py -> in-memory text file", "diskcache.Cache -> dict with transact()/close()",
                 "SQLiteTrie -> sqltrie.PyGTrie holding the JSON bytes")),
    ],
    assumptions=["json / orjson encode and decode faithfully (executed for real on concrete values)",
                 "SQLite/diskcache store bytes and keys unchanged (modelled by an in-memory mapping)"],
    outside=["bytes on disk in SQLite / diskcache, pickle protocol", "orjson's 64-bit integer limit", "strings longer than 2 characters",
             "the empty root key in the SQLite-backed form (not representable in the in-memory raw trie stand-in)"],
    explanation="CrossHair runs the real to_dict/from_dict/as_list/from_list/serialize functions with every optional field symbolic "
                "(None-ness flags + values); projection oracle P(e) = (serialised meta dict, serialised hash dict, loaded).",
)
