from vf.runner import H, Spec

KERNEL_LISTINGS_Q = [[[0], [0]], [[0, 1], [0]], [[0, 1], [1, 2]], [[0, 1], [0, 1]], [[0], [1]], [[0, 1, 2], [0]], [[0, 1], [2]], [[], [0]],
                     [[0, 1, 2], [0, 1, 2]], [[0], []]]
STACK_LISTINGS_Q = [[[0, 1], [0]], [[0], [0, 1]], [[0], [1]], [[0, 0], [1]], [[0, 1]]]
STACK_LISTINGS_T = [[[0, 1], [0, 2]], [[0, 1, 2], [0]], [[0, 1], [1, 2], [0, 2]], [[0, 0, 1], [1]], [[0], [1], [2]]]
DSTS = ["local", "base", "remote"]


def cubes_kernel(tier):
    if tier == "quick":
        return [{"listing": l, "req": [1, 1]} for l in KERNEL_LISTINGS_Q]
    subs = [[i for i in range(3) if m >> i & 1] for m in range(8)]
    return [{"listing": [a, b]} for a in subs for b in subs]


def stack_cubes(prop):
    def cubes(tier):
        if tier == "quick":
            out = [dict(nfiles=2, listing=l, dst=d, prop=prop, ekind=(prop == "C04" and l == STACK_LISTINGS_Q[0])) for l in STACK_LISTINGS_Q[:3] + STACK_LISTINGS_Q[3:4]
                   for d in DSTS if not (l == STACK_LISTINGS_Q[1] and d != "local")]
            out += [dict(nfiles=2, listing=[[0, 1], [0]], dst="remote", prop=prop, index=True, _w=2),
                    dict(nfiles=2, listing=[[0, 1], [0]], dst="local", prop=prop, mode="expand", _w=2)]
            if prop == "C04":
                out += [dict(nfiles=2, listing=[[0, 1], [0]], dst="local", prop=prop, abort=k) for k in (1, 2)]
            out += [dict(nfiles=2, listing=[[0, 1], [0]], dst="base", prop=prop, label=True)]  # requested ids labelled with obj_name
            return out
        out = [dict(nfiles=2, listing=l, dst=d, prop=prop, ekind=True) for l in STACK_LISTINGS_Q for d in DSTS]
        out += [dict(nfiles=2, listing=l, dst=d, prop=prop, mode="expand") for l in STACK_LISTINGS_Q for d in DSTS]
        out += [dict(nfiles=2, listing=l, dst=d, prop=prop, index=True) for l in STACK_LISTINGS_Q for d in DSTS]
        out += [dict(nfiles=2, listing=l, dst="local", src="local", prop=prop) for l in STACK_LISTINGS_Q]
        out += [dict(nfiles=2, listing=l, dst=d, prop=prop, label=True) for l in STACK_LISTINGS_Q for d in ("local", "remote")]
        out += [dict(nfiles=3, listing=l, dst=d, prop=prop, _w=4) for l in STACK_LISTINGS_T for d in ("local", "remote")]
        if prop == "C04":
            out += [dict(nfiles=2, listing=l, dst=d, prop=prop, abort=k) for l in STACK_LISTINGS_Q for d in ("local", "remote")
                    for k in range(0, 5)]
        return out
    return cubes


K_SMOKE = dict(l00=True, l01=False, l02=False, l10=True, l11=False, l12=False, rd0=True, rd1=True, pf0=False, pf1=False, pf2=False,
               m0=False, m1=False, m2=False, xf0=True, xf1=False, xf2=False, xd0=False, xd1=False)
T_SMOKE = dict(s0=True, s1=True, s2=True, p0=False, p1=False, p2=False, pd0=False, pd1=False, pd2=False, x0=True, x1=False, x2=False,
               xd0=False, xd1=False, xd2=False, c0=False, c1=False, c2=False, ab=0)
STACK_ENCODES = ("hashfile.transfer.transfer/_do_transfer/_add/find_tree_by_obj_id, status.compare_status/status/_indexed_dir_hashes, "
                 "Tree.load/from_list, HashFileDB.add/check/get, LocalHashFileDB.check/protect/oids_exist/makedirs, "
                 "ObjectDB.add/exists/oids_exist/_init (dvc_objects), generic.transfer/copy/_put/_get (dvc_objects) on the model fs")
STACK_STUBS = ("model local filesystem / model remote (vf.modelfs)", "upload faults injected at dvc_objects.fs.generic.transfer",
               "progress bars and logging silenced")

SPEC = Spec(
    pid="C04",
    title="Transfer keeps the destination closed: a directory object implies its files",
    harnesses=[
        H("kernel", "vf.harness.c04_kernel", "h_kernel", cubes_kernel, timeout={"quick": 120, "thorough": 400},
          bounds={"quick": "2 directories x 3 files, 10 listing shapes, both requested; destination contents, both-sides-missing set and every "
                           "upload's failure bit symbolic", "thorough": "all 64 listing matrices, requested subset symbolic too"},
          smoke=[{"args": K_SMOKE, "cube": {}}], encodes="transfer._do_transfer, transfer._add (stores and tree lookup modelled minimally)",
          stubs=("Src/Dest stand-ins with add()/get(); find_tree_by_obj_id -> prepared trees",)),
        H("stack", "vf.harness.c04_transfer", "h_transfer", stack_cubes("C04"), timeout={"quick": 400, "thorough": 1500}, real=True,
          bounds={"quick": "2 files (one CRLF) / <=2 directory objects, 5 listing shapes (shared file, repeated file, single dir) x 3 destination "
                           "kinds; per object: in source?, in destination?, upload fails?; closure checked after every upload event and after a "
                           "fault-free retry; + index / expand / abort spot cubes",
                  "thorough": "adds shallow=False requests, destination index, local source store, 3 files / 3 directories, abort at every upload index"},
          smoke=[{"args": T_SMOKE, "cube": {"nfiles": 2, "listing": [[0, 1], [0]], "dst": "local", "prop": "C04"}}],
          encodes=STACK_ENCODES, stubs=STACK_STUBS),
        H("index-history", "vf.harness.c04_transfer", "h_index_history",
          lambda tier: [dict(dst=d) for d in (("remote", "local") if tier == "quick" else DSTS)],
          timeout={"quick": 300, "thorough": 900}, real=True,
          bounds={"quick": "two pushes sharing one destination index: A=[f0,f1] pushed and indexed, optional closure-preserving collection of the remote "
                           "(A.dir and a symbolic subset of its files), then B=[f1,f2] pushed with symbolic upload failures", "thorough": "all 3 destination kinds"},
          smoke=[{"args": dict(gc=True, del0=False, del1=True, x1=False, x2=False, xb=False), "cube": {"dst": "remote"}}],
          encodes=STACK_ENCODES + ", ObjectDBIndex.update/clear/intersection/dir_hashes", stubs=STACK_STUBS + ("diskcache Index -> dict",)),
    ],
    assumptions=["the initial destination is itself closed", "requests are closed (directories with their files) or ask for expansion",
                 "an upload either places the complete object or reports an error (dvc_objects contract; C15 looks below that)"],
    outside=["more than 3 files / 3 directories", "process death inside one upload (C15)", "real network remotes"],
    explanation="CrossHair runs the real transfer stack on model stores; which objects each side holds, which uploads fail and where the "
                "process aborts are symbolic booleans/ints decided by z3 at the branches the real code takes; after every upload event the "
                "destination's directory objects are parsed and their children looked up.",
)
