from vf.runner import H, Spec


def lens(tier):
    top = 10 if tier == "quick" else 16
    out = [{"len": n, "_w": 1 + n // 4} for n in range(0, top + 1)]
    out.append({"lemma": 512, "cvc5": tier == "thorough", "_w": 3})
    if tier == "thorough":
        out.append({"lemma": 1023, "cvc5": True, "_w": 4})
    return out


def stream(tier):
    return [{"maxlen": 4}] if tier == "quick" else [{"maxlen": 5}, {"maxlen": 6}]


def d2u(tier):
    return [{"maxlen": 5}] if tier == "quick" else [{"maxlen": 7}]


def legacy(tier):
    if tier == "quick":
        return [{"maxlen": 3, "window": 2, "extra": e} for e in range(3)]
    return [{"maxlen": 3, "window": 2, "extra": e} for e in range(3)] + \
           [{"maxlen": 4, "window": 4, "extra": e, "len": n, "_w": n} for e in range(3) for n in range(5)] + \
           [{"maxlen": 5, "window": 3, "extra": e, "len": n, "_w": n} for e in range(3) for n in range(6)]


def one(tier):
    return [{}]


B4 = {"__bytes__": "610d0a62"}
SPEC = Spec(
    pid="C14",
    title="Hashing is correct, chunking-independent, and a faithful pass-through",
    harnesses=[
        H("sniff", "vf.harness.c14_sniff", "sniff", lens, timeout={"quick": 240, "thorough": 1200}, engine="B",
          bounds={"quick": "every byte string of each length 0..10 (bit-vectors); threshold lemma for all 0<=n<=L<=512 (11-bit vectors -> Float64 RNE)",
                  "thorough": "lengths 0..16; lemma to 1023 and re-checked with cvc5 on the SMT-LIB2 text"},
          smoke=[{"args": {"block_hex": "610d0aff"}, "cube": {}}, {"args": {"n": 3, "L": 10}, "cube": {}}],
          encodes="istextfile.istextblock executed on z3-valued bytes (translate/len/float/division/<= on Float64), TEXT_CHARS and the 0.30 literal read "
                  "from the live module", stubs=("len()/float() of the module namespace patched to symbolic counterparts for the run",)),
        H("stream", "vf.harness.c14_hash", "h_stream", stream, timeout={"quick": 400, "thorough": 1500},
          bounds={"quick": "content <= 4 arbitrary bytes, requested chunk size 1..5, three short-read caps 1..5, upper/lower-case algorithm name",
                  "thorough": "content <= 6 bytes"},
          smoke=[{"args": {"data": B4, "chunk": 2, "c0": 1, "c1": 3, "c2": 1, "legacy": True}, "cube": {}}],
          encodes="hash.HashStreamFile.__init__/read/hash_value, hash.fobj_md5, hash.get_hash_stream",
          stubs=("hasher -> recorder of update() arguments (hashlib's streaming contract trusted)", "file object with symbolic short reads")),
        H("driver", "vf.harness.c14_hash", "h_driver", stream, timeout={"quick": 200, "thorough": 900},
          bounds={"quick": "content <= 4 bytes, chunk size and two short-read caps symbolic", "thorough": "<= 6 bytes"},
          smoke=[{"args": {"data": B4, "chunk": 2, "c0": 1, "c1": 3}, "cube": {}}], encodes="hash.fobj_md5 loop, get_hash_stream, HashStreamFile.read"),
        H("dos2unix", "vf.harness.c14_hash", "h_d2u", d2u, timeout={"quick": 200, "thorough": 900},
          bounds={"quick": "every byte string of length <= 5", "thorough": "<= 7"},
          smoke=[{"args": {"data": {"__bytes__": "610d0a0d620d"}}, "cube": {"maxlen": 6}}], encodes="hash.dos2unix"),
        H("legacy-stream", "vf.harness.c14_hash", "h_legacy", legacy, timeout={"quick": 300, "thorough": 1200},
          bounds={"quick": "content <= 3 bytes with the sniffing window scaled to 2 (so contents shorter than, equal to and longer than the window and the "
                           "read size all occur), read size = window + 0..2", "thorough": "<= 4 bytes / window 4 and <= 5 bytes / window 3, per length"},
          smoke=[{"args": {"data": {"__bytes__": "610a620a"}, "extra": 1}, "cube": {}}],
          encodes="hash.Dos2UnixHashStreamFile.read, hash.get_hash_stream, hash.dos2unix",
          stubs=("istextblock -> its definition (equivalence decided by the sniff harness)", "DEFAULT_CHUNK_SIZE scaled down", "recorder hasher")),
        H("algorithms", "vf.harness.c14_hash", "h_alg", one, timeout={"quick": 120, "thorough": 300},
          bounds={"quick": "every name in hashlib.algorithms_available (fixed-length digests) + md5-dos2unix + blake3, lower and upper case", "thorough": "same"},
          smoke=[{"args": {"i": 3, "upper": True}, "cube": {}}], encodes="hash.get_hasher, HashStreamFile (name lower-casing)"),
    ],
    assumptions=["hashlib/blake3 implement their algorithms and satisfy update(a);update(b) == update(a+b)",
                 "a read returns at least one byte while data remains"],
    outside=["contents longer than the bound", "the digest functions themselves", "shake_* variable-length digests"],
    explanation="Engine B runs the real istextblock on bit-vector bytes with exact IEEE-754 division and z3 proves it equal to an independent definition "
                "for every content of each length; Engine A (CrossHair) runs the real hashing stream / driver / dos2unix / legacy stream on symbolic "
                "bytes and read sizes.",
)

MANIFEST = {"technique": "SMT (z3, bit-vectors + IEEE-754 Float64) over the real istextblock executed on z3-valued duck types, cvc5 cross-check of the "
                         "threshold lemma; CrossHair symbolic execution of the real hashing stream / driver / dos2unix code"}
