from vf.props.c04 import STACK_ENCODES, STACK_STUBS, T_SMOKE, stack_cubes
from vf.runner import H, Spec


def cubes(tier):
    out = stack_cubes("C11")(tier)
    # corrupt sources under verify
    if tier == "thorough":
        out += [dict(nfiles=2, listing=l, dst=d, prop="C11", verify=True, corrupt=True, _w=2) for l in ([[0, 1], [0]], [[0], [1]])
                for d in ("local", "base", "remote")]
        out += [dict(nfiles=2, listing=l, dst=d, prop="C11", verify=True, corrupt=True, _w=2) for l in ([[0, 1]], [[]]) for d in ("local", "base", "remote")]
    else:
        out += [dict(nfiles=2, listing=[[0, 1], [0]], dst="local", prop="C11", verify=True, corrupt=True, _w=2)]
        # one batch holding both files (a single directory / two loose files): which of the two fails and which is corrupt is
        # symbolic, so the outcome does not depend on the set-iteration order inside the batch
        out += [dict(nfiles=2, listing=l, dst=d, prop="C11", verify=True, corrupt=True, _w=2) for l, d in (([[0, 1]], "local"), ([[]], "base"))]
    # what the status hook (validate_status: how push/fetch learn about objects missing on both sides) is told, including the
    # retry where nothing is new any more
    out += [dict(nfiles=2, listing=l, dst=d, prop="C11", vstatus=True) for l, d in (([], "base"), ([[0, 1]], "local"))]
    if tier == "thorough":
        out += [dict(nfiles=3, listing=l, dst=d, prop="C11", vstatus=True, _w=2) for l in ([], [[0, 1], [2]]) for d in ("local", "base", "remote")]
    return out


SPEC = Spec(
    pid="C11",
    title="A transfer's result tells the truth about what arrived",
    harnesses=[
        H("stack", "vf.harness.c04_transfer", "h_transfer", cubes, timeout={"quick": 400, "thorough": 1500}, real=True,
          bounds={"quick": "as C04 stack (2 files, <=2 directory objects, 5 listing shapes x 3 destination kinds) with the result-truthfulness "
                           "oracle, plus verify=True with symbolically corrupt source objects",
                  "thorough": "adds shallow=False, destination index, local source, 3 files / 3 directories"},
          smoke=[{"args": T_SMOKE, "cube": {"nfiles": 2, "listing": [[0, 1], [0]], "dst": "base", "prop": "C11"}}],
          encodes=STACK_ENCODES, stubs=STACK_STUBS),
    ],
    assumptions=["an upload either places the complete object or reports an error (dvc_objects contract)"],
    outside=["more than 3 files / 3 directories", "concurrent modification of either store during the transfer"],
    explanation="Same symbolic scenario space as C04; oracle: transferred/failed partition the objects new to the destination, every "
                "transferred id is present with bytes matching its name, absent requested ids are failed or missing on both sides, objects "
                "already present are neither reported nor re-sent (upload log), source store byte-identical before/after.",
)
