from vf.runner import H, Spec

NACT = 12  # 3 workload objects (2 distinct file contents + the directory object) x {place protected, place unprotected, mkdir, state row}
REP = [0, 2, 3, 5, 6, 8, 9, 11]


def cubes(tier):
    if tier == "quick":
        out = [dict(cls=c, nsteps=1, a1=a) for c in ("local", "base") for a in range(NACT)]
        out += [dict(cls="local", nsteps=2, a1=a, a2=b, e_lo=lo, e_hi=lo + 5, _w=5) for a, b in ((3, 9), (6, 0)) for lo in (-1, 5, 11, 17)]
        out += [dict(cls="local", nsteps=1, a1=a, upload=True) for a in (2, 5)]
        out += [dict(cls="local", nsteps=2, probe=i, span=5, e_lo=lo, e_hi=lo + 5, _w=4) for i in (0, 2) for lo in (-1, 5, 11, 17)]
        out += [dict(cls="local", nsteps=2, probe=i, wipe=True, span=5, e_lo=lo, e_hi=lo + 5, _w=4) for i in (0, 2) for lo in (5, 11, 17)]
        # interference positions also between two queries of the writer (39 positions instead of 21)
        out += [dict(cls="local", nsteps=2, probe=0, wipe=w, reads=True, span=4, e_lo=lo, e_hi=lo + 7, _w=4) for w in (False, True) for lo in (-1, 7, 15, 23, 31)]
        out += [dict(cls="local", nsteps=2, probe=i, second="wipe", reads=True, span=3, e_lo=lo, e_hi=lo + 7, _w=4) for i in (0, 2) for lo in (-1, 7, 15, 23, 31)]
        # the other writer is a thread of this process sharing the State object (per-thread SQLite connections in the model)
        out += [dict(cls="local", nsteps=1, a1=a, threads=True) for a in (9, 10, 11)]
        return out
    out = [dict(cls=c, nsteps=2, a1=a, a2=b, _w=8) for c in ("local", "base") for a in REP for b in REP]
    out += [dict(cls=c, nsteps=1, a1=a, upload=u) for c in ("local", "base") for a in range(NACT) for u in (False, True)]
    out += [dict(cls="local", nsteps=2, probe=i, upload=u, wipe=w, e_lo=lo, e_hi=lo + 5, _w=6) for i in range(3) for u in (False, True)
            for w in (False, True) for lo in (-1, 5, 11, 17, 23)]
    out += [dict(cls="local", nsteps=2, probe=i, wipe=w, reads=True, span=8, e_lo=lo, e_hi=lo + 5, _w=6) for i in range(3) for w in (False, True)
            for lo in range(-1, 40, 6)]
    out += [dict(cls="local", nsteps=1, a1=a, reads=True) for a in range(NACT)]
    out += [dict(cls=c, nsteps=2, a1=a, a2=b, threads=True, _w=4) for c in ("local", "base") for a in (9, 10, 11) for b in (9, 10, 11)]
    out += [dict(cls="local", nsteps=2, probe=i, second="wipe", reads=True, span=6, e_lo=lo, e_hi=lo + 5, _w=6) for i in range(3) for lo in range(-1, 40, 6)]
    return out


SPEC = Spec(
    pid="C16",
    title="Concurrent writers cannot corrupt a shared store or state database",
    harnesses=[
        H("interference", "vf.harness.c16_interf", "h_interfere", cubes, timeout={"quick": 500, "thorough": 1200},
          bounds={"quick": "(plus paired probe cubes: another writer's in-place reflink probe leaves an empty file under an object's final name at a symbolic "
                           "position and completes its add at a later symbolic position) one writer stages and transfers a 3-file tree (duplicate + empty content) into a shared store with a shared state table; "
                           "one environment step (every one of 12 actions) fires at a symbolic position: before the operation or before any of its "
                           "~17 filesystem mutations; 4 two-step cubes; both store classes; upload staging",
                  "thorough": "two environment steps over 8 representative actions (64 ordered pairs) x 2 classes, all positions"},
          smoke=[{"args": dict(e1=4, a1=5, e2=9, a2=2), "cube": {"cls": "local", "nsteps": 2}}],
          encodes="build.build/_build_tree/_build_files/_get_hashes, transfer.transfer/_do_transfer/_add, status.compare_status/status, HashFileDB.add/check, "
                  "LocalHashFileDB.oids_exist/check/protect/makedirs, ObjectDB.add/exists/_init, State.get_many/save_many on the model fs",
          stubs=("model filesystem with a pre-mutation hook", "interference = atomic placement of a complete correctly named object / fan-out mkdir / "
                 "correct state row (the guarantee of a correct writer)", "shared state table = dict (SQLite serialisability assumed)")),
    ],
    assumptions=["rely/guarantee composition: every writer's own steps are of the kinds used as interference (established by C01/C15 on the same code)",
                 "rename/link placement is atomic; SQLite transactions are serialisable", "interference happens between filesystem operations"],
    outside=["real thread / process scheduling, GIL-level data races on shared Python objects", "intra-operation races inside dvc_objects or the kernel",
             "more than two interfering steps per run", "the process-global in-memory staging filesystem shared by threads of one process"],
    explanation="Real threads cannot be encoded; what is decided is one inductive rely/guarantee step: CrossHair runs the real writer code on the model "
                "store while the position and kind of interfering steps by other writers are symbolic; the writer must still succeed, its objects must "
                "be present, complete and correctly named, and the final store must not depend on the interference.",
)

MANIFEST = {"technique": "rely/guarantee step decided by symbolic execution (CrossHair + z3): real writer code on a model store with position and kind of "
                         "other writers' atomic steps symbolic (bounded: <= 2 interfering steps)"}
