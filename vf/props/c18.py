import itertools

from vf.runner import H, Spec

PSETS = [[[], ["a"], ["a", "b"]], [[], ["a"], ["b"]], [[], ["a", "b"], ["a", "a"]], [["a"], ["a"], ["a", "b"]]]


def cubes_resolve(tier):
    masks = [m for m in itertools.product([0, 1], repeat=3) if any(m)]
    if tier == "quick":
        return [dict(prefixes=p, has=list(m)) for p in PSETS[:3] for m in masks if sum(m) >= 2] + [dict(prefixes=PSETS[3], has=[1, 1, 1])]
    return [dict(prefixes=p, has=list(m)) for p in PSETS for m in masks] + [dict(has=list(m), _w=10) for m in masks if sum(m) >= 2]


def cubes_move(tier):
    if tier == "quick":
        return [dict(mapping=m, rkind="remote", _w=3) for m in (0, 1, 2, 3, 4)] + [dict(mapping=1, rkind="base", _w=3), dict(mapping=2, rkind="remote", dup=True, _w=3)] + \
               [dict(mapping=1, rkind="remote", nested_first=True, _w=3)]  # nested prefix registered before its parent
    return [dict(mapping=m, rkind=r, dup=d, _w=3) for m in (0, 1, 2, 3, 4) for r in ("remote", "base") for d in (False, True)] + \
           [dict(mapping=m, rkind=r, nested_first=True, _w=3) for m in (1, 2) for r in ("remote", "base")]


R_SMOKE = dict(q0=0, q1=1, ql=2, r0=0, r1=0, rl=1, s0=0, s1=1, sl=2, has0=True, has1=True, has2=True, d0=True, c0=True, m0=True,
               d1=False, c1=True, m1=False, d2=False, c2=False, m2=True)
M_SMOKE = dict(pa=True, pb=True, py=True, f0=True, f1=False, f2=False, f3=False)

SPEC = Spec(
    pid="C18",
    title="Push and fetch through storage mappings move exactly the reachable objects",
    harnesses=[
        H("resolve", "vf.harness.c18_storage", "h_resolve", cubes_resolve, timeout={"quick": 300, "thorough": 1200},
          bounds={"quick": "3 storage prefixes (4 prefix sets incl. nested, sibling and duplicate prefixes; which are registered = cube), query key "
                           "symbolic over {a,b}^<=2, presence of each role (data/cache/remote) on each prefix symbolic and decided when the resolution "
                           "code reads it", "thorough": "all registration masks; prefixes themselves symbolic over {a,b}^<=2"},
          smoke=[{"args": R_SMOKE, "cube": {}}], encodes="StorageMapping.__getitem__/__setitem__, StorageInfo"),
        H("move", "vf.harness.c18_storage", "h_move", cubes_move, timeout={"quick": 600, "thorough": 1800}, real=True,
          bounds={"quick": "index over x/a, x/s/b (empty), y (same bytes as x/a) with symbolic presence; mappings: one prefix / `x` with its own "
                           "remote / `x` with its own cache and remote / two disjoint prefixes sharing one remote / a prefix inside an unloaded directory object; first push round with symbolic upload failures, clean retry, fetch into empty "
                           "caches, index checkout", "thorough": "both remote kinds for every mapping"},
          smoke=[{"args": M_SMOKE, "cube": {"mapping": m}} for m in (0, 2)],
          encodes="index.build.build, index.save.md5/save/_save_dir_entry/build_tree, index.collect.collect/_collect_from_index, index.push.push, "
                  "index.fetch.fetch, DataIndex.view/iteritems/_load, StorageMapping.get_storage/get_cache_odb, ObjectStorage.get_key/get, "
                  "hashfile.transfer.transfer/_do_transfer, status.compare_status, index.checkout.compare/apply",
          stubs=("model local filesystem and model remotes", "upload faults at generic.transfer", "remote index disabled (no tmp_dir) as in a bare store")),
    ],
    assumptions=["object stores only (no FileStorage remotes)", "remotes and target caches start empty"],
    outside=["version-aware cloud filesystems", "FileStorage data/remotes", "more than two storage prefixes",
             "observed (not excluded by the statement): entries under a longer prefix are also collected for the shorter prefix's remote, so that remote "
             "receives them too"],
    explanation="CrossHair runs the real StorageMapping resolution with role presence decided lazily by z3 at the reads the code performs, and the "
                "real save/collect/push/fetch/checkout pipeline on model stores with tree shape and first-round upload failures symbolic; oracle: per "
                "remote the reachable set computed from the generated data; counts; retry completeness; byte-exact checkout.",
)
