from vf.runner import H, Spec

LINKS = ["copy", "hardlink", "symlink"]


def cubes_noloss(tier):
    if tier == "quick":
        combos = [("local", "copy", False), ("local", "hardlink", True), ("base", "symlink", False)]
        out = [dict(cls=c, link=l, state=st, s0=s, nkeys=2) for c, l, st in combos for s in range(5)]
        out += [dict(cls="local", link="copy", target="file"), dict(cls="base", link="hardlink", target="file", state=True)]
        # a dangling symlink left in the workspace directory (the dry-run staging of the workspace cannot read it)
        out += [dict(cls=c, link=l, state=False, s0=s, nkeys=2, dangling=True) for c, l in (("local", "copy"), ("base", "symlink")) for s in (0, 3)]
        return out
    out = [dict(cls=c, link=l, state=st, s0=s, nkeys=2) for c in ("local", "base") for l in LINKS for st in (False, True) for s in range(5)]
    out += [dict(cls="local", link=l, state=False, s0=s, nkeys=3, _w=5) for l in ("copy", "symlink") for s in range(5)]
    out += [dict(cls=c, link=l, target="file", state=st) for c in ("local", "base") for l in LINKS for st in (False, True)]
    out += [dict(cls=c, link=l, state=False, s0=s, nkeys=2, dangling=True) for c in ("local", "base") for l in LINKS for s in range(5)]
    return out


def cubes_links(tier):
    if tier == "quick":
        # the clean-up runs twice on the record-first history (it runs on every checkout)
        return [dict(nops=2, o1=o, kinds=["file", "dir"], passes=2 if o == 0 else 1) for o in range(5)]
    return [dict(nops=3, o1=o, kinds=k, passes=2, _w=3) for o in range(5) for k in (["file", "dir"], ["dir", "file"], ["file", "file"])]


N_SMOKE = dict(s0=3, s1=2, s2=0, stray=1, relink=False, prompt_declines=True)
L_SMOKE = dict(o1=0, o2=1, o3=0, u1=False, u2=False, k1=False, k2=False, k3=True)
ENC = ("checkout.checkout/_diff/_checkout/_remove/_relink/_checkout_file/_determine_files_to_relink/_needs_relink/Link/_save_link, "
       "hashfile.diff.diff/_cache_check, build.build(dry_run)/_build_tree/_build_files/_walk_files, HashFileDB.check, LocalHashFileDB.check/"
       "unprotect/_unprotect_file/protect, utils._get_mtime_from_changes, State.save_many/set_link, generic.test_links/transfer (dvc_objects) on the model fs")

SPEC = Spec(
    pid="C05",
    title="Checkout never destroys user data that is not recoverable from the cache",
    harnesses=[
        H("noloss", "vf.harness.c05_checkout", "h_noloss", cubes_noloss, timeout={"quick": 300, "thorough": 1200}, real=True,
          bounds={"quick": "target = tree over a, d/b (empty file) or a single file; per key the prior workspace holds nothing / the target bytes / other "
                           "cached bytes / uncached bytes / a directory with an uncached file (kind swap); stray file none/cached/uncached; relink; "
                           "prompt absent or declining; force=False; cubes: (local,copy), (local,hardlink,state), (base,symlink)",
                  "thorough": "both store classes x 3 link types x state on/off; 3 keys (duplicate content)"},
          smoke=[{"args": N_SMOKE, "cube": {"cls": "local", "link": "copy"}}, {"args": N_SMOKE, "cube": {"cls": "base", "link": "hardlink", "state": True}}],
          encodes=ENC, stubs=("model filesystem / model os", "model hash-state tables", "target staged and transferred by the real build/transfer outside tracing")),
        H("history", "vf.harness.c05_checkout", "h_history", lambda tier: [dict(cls=c, link=l, state=st, nkeys=2) for c, l, st in
                                                                        ((("local", "copy", False), ("base", "hardlink", True)) if tier == "quick" else
                                                                         [(c, l, st) for c in ("local", "base") for l in LINKS for st in (False, True)])],
          timeout={"quick": 300, "thorough": 900}, real=True,
          bounds={"quick": "one process: optional first checkout, optional garbage collection of everything but the target, the user puts old / fresh / "
                           "target bytes back at a symbolic key, then a non-forced checkout", "thorough": "all store class / link / state combinations"},
          smoke=[{"args": dict(k=0, v=0, do_gc=True, relink=False, first=True), "cube": {"cls": "local", "link": "copy"}}],
          encodes=ENC + ", gc.gc", stubs=("model filesystem", "model hash-state tables")),
        H("links", "vf.harness.c05_checkout", "h_links", cubes_links, timeout={"quick": 200, "thorough": 900}, real=True,
          bounds={"quick": "two tracked paths (a file, a directory of two files), histories of 2 steps over {record, modify, replace (new inode), "
                           "remove, add file inside directory}, then clean-up with a symbolic `used` subset",
                  "thorough": "3 steps, 3 kind combinations"},
          smoke=[{"args": L_SMOKE, "cube": {"nops": 3}}],
          encodes="State.save_link/set_link/get_unused_links/remove_links, utils.get_mtime_and_size/_tokenize_mtimes/to_nanoseconds",
          stubs=("diskcache links table -> dict", "model filesystem")),
    ],
    assumptions=["cache objects referenced by the target are present and intact", "no ignore filters; no special files in the prior workspace; symlinks only as the dangling link of the `dangling` cubes"],
    outside=["an affirmative prompt / force=True (C10)", "symlinks in the workspace other than one dangling link at the top of the workspace directory", "more than 3 keys"],
    explanation="CrossHair runs the real checkout stack on the model workspace; prior state per key, stray file, relink and prompt are symbolic; "
                "oracle: every byte string that disappeared from a path must hash to an intact object of the cache, and uncached data in the way "
                "must produce PromptError.",
)
