from vf.runner import H, Spec

CLS = ["local", "base", "remote"]


def cubes_status(tier):
    out = [dict(listing=[[0, 1]], nfiles=2, cls=c, shallow=s) for c in CLS for s in (True, False)]
    if tier == "thorough":
        out += [dict(listing=[[0, 1], [1, 2]], nfiles=3, cls=c, shallow=s, _w=4) for c in CLS for s in (True, False)]
        out += [dict(listing=[[0, 1]], nfiles=2, cls=a, cls_b=b, shallow=True) for a in CLS for b in CLS if a != b]
        out += [dict(listing=[[0, 1]], nfiles=2, cls=c, shallow=True, zero=z, lookup=m, _w=3) for c in ("base", "remote") for z in (False, True)
                for m in ("exists", "traverse")]
    else:
        out += [dict(listing=[[0, 1]], nfiles=2, cls="local", cls_b="remote", shallow=True)]
        out += [dict(listing=[[0, 1]], nfiles=2, cls="remote", shallow=True, zero=True, lookup="exists", _w=2)]
    return out


def cubes_index(tier):
    if tier == "quick":
        seqs = ["TQ", "TDQ", "TT", "TDT", "QT", "TQD"]
        return [dict(listing=[[0, 1]], nfiles=2, cls=c, steps=s, _w=len(s)) for s in seqs for c in ("remote", "local")] + \
               [dict(listing=[[0, 1], [1]], nfiles=2, cls="remote", steps=s, _w=3) for s in ("TQ", "TDQ")]
    import itertools
    seqs = ["".join(p) for n in (2, 3) for p in itertools.product("TDQ", repeat=n) if "T" in p]
    return [dict(listing=l, nfiles=2, cls=c, steps=s, _w=len(s)) for s in seqs for c in CLS for l in ([[0, 1]], [[0, 1], [1]])]


S1 = dict(a0=True, a1=False, a2=False, ad0=True, ad1=False, b0=False, b1=True, b2=False, bd0=True, bd1=False, q0=True, q1=True, q2=False,
          qd0=True, qd1=False)
S2 = dict(x0=True, x1=False, xd0=False, xd1=False, y0=False, y1=False, yd0=False, yd1=False, k1=2, k2=0)

SPEC = Spec(
    pid="C12",
    title="Status is exact and the remote index never invents objects",
    harnesses=[
        H("status", "vf.harness.c12_status", "h_status", cubes_status, timeout={"quick": 300, "thorough": 900}, real=True,
          bounds={"quick": "2 files + 1 directory object: contents of two stores and the queried id set symbolic; 3 store kinds (exists-per-object, "
                           "list/traverse) x shallow/expanded; compare_status four-way partition against both listings; one cube with the remote-size heuristics scaled so that "
                           "the listing-plus-per-object strategy runs (an object in the estimated '00' prefix)",
                  "thorough": "3 files + 2 directory objects, mixed store kinds, forced prefix-by-prefix traversal"},
          smoke=[{"args": S1, "cube": {"cls": c, "shallow": True}} for c in CLS],
          encodes="status.status/compare_status, ObjectDB.oids_exist/list_oids_exists/_estimate_remote_size/_list_oids_traverse/_list_oids, "
                  "LocalHashFileDB.oids_exist/check, Tree.load", stubs=("model filesystems", "progress silenced")),
        H("index-history", "vf.harness.c12_status", "h_index", cubes_index, timeout={"quick": 300, "thorough": 900}, real=True,
          bounds={"quick": "histories of <=3 steps over {closed transfer with symbolic upload failures, external deletion of a symbolic object, status "
                           "query} sharing one index; 2 files, 1-2 directory objects; remote and local destination",
                  "thorough": "all step sequences of length 2-3 containing a transfer x 3 store kinds x 2 listings"},
          smoke=[{"args": S2, "cube": {"cls": "remote", "steps": "TDQT"}}],
          encodes="status.status/_indexed_dir_hashes, ObjectDBIndex.update/clear/intersection/dir_hashes/__contains__/__iter__, "
                  "transfer.transfer/_do_transfer (index update / clear), ObjectDB.list_oids_exists",
          stubs=("diskcache Index -> dict with transact()", "model filesystems", "upload faults at generic.transfer")),
    ],
    assumptions=["objects in local stores are intact (C07 covers tampering)", "diskcache/SQLite persist the index mapping faithfully"],
    outside=["index persistence in SQLite", "histories longer than 3 steps", "real remote sizes (the strategy thresholds are scaled down instead)"],
    explanation="CrossHair runs the real status/compare_status/transfer code on model stores with store contents, query sets, upload failures and "
                "the externally deleted object symbolic; after every step the index contents are compared with a direct listing of the store.",
)
