from vf.runner import H, Spec

QUERIES = ["single", "many", "build", "md5", "update"]
VARIANTS = ["other-alg", "newer-version", "legacy", "nonlocal"]


def cubes(tier):
    if tier == "quick":
        out = [dict(nops=2, query=q, _w=2) for q in QUERIES]
        out += [dict(nops=2, query="many", limit=l, _w=2) for l in (1, 3)]
        out += [dict(nops=2, query="single", name="sha256")]
        out += [dict(nops=1, query="single", variant=v) for v in VARIANTS]
        out += [dict(nops=1, query=q, variant=v) for v in ("other-alg", "newer-version", "legacy") for q in ("many", "build")]
        out += [dict(nops=1, query="race")]  # the file is rewritten between hash_file's read and its state save
        return out
    out = [dict(nops=3, query=q, op1=o, _w=3) for q in QUERIES for o in range(5)]
    out += [dict(nops=3, query="many", limit=l, op1=o, _w=3) for l in (1, 3) for o in range(5)]
    out += [dict(nops=2, query=q, name=n) for q in ("single", "many") for n in ("sha256", "md5-dos2unix")]
    out += [dict(nops=2, query=q, variant=v) for v in VARIANTS for q in ("single", "many", "build", "md5")]
    out += [dict(nops=2, query="race", name=n) for n in ("md5", "sha256", "md5-dos2unix")]
    return out


def cubes_legacy(tier):
    return [dict(link="copy")] if tier == "quick" else [dict(link=l) for l in ("copy", "hardlink", "symlink")]


SMOKE = dict(c0=True, o1=0, o2=2, o3=1, s1=False, s2=True, s3=False, q1=True, q2=True)

SPEC = Spec(
    pid="C13",
    title="Cached and carried-over hashes are never stale",
    harnesses=[
        H("histories", "vf.harness.c13_stale", "h_stale", cubes, timeout={"quick": 300, "thorough": 1200}, real=True,
          bounds={"quick": "histories of 2 mutations over {size-only change, same-size rewrite (mtime only), atomic replace with copied mtime (inode "
                           "only), touch, delete, re-create} with a query after the last and optionally after the first; query kinds: single "
                           "hash_file, batched _get_hashes over <=5 paths with the SQL parameter limit scaled to 1..3, staging (build dry run), "
                           "index md5(), index update(); md5 and sha256; poisoned entries (other algorithm, newer version, legacy, non-local fs)",
                  "thorough": "3 mutations (first one = cube), all query kinds and variants, md5-dos2unix"},
          smoke=[{"args": SMOKE, "cube": {"nops": 3, "query": q}} for q in QUERIES] +
                [{"args": SMOKE, "cube": {"nops": 2, "query": "single", "variant": v}} for v in VARIANTS],
          encodes="State.get/get_many/save/save_many/_get, state._checksum, HashesCache.get_many/get/set_many/is_empty (real code over a stub SQL layer), "
                  "compat.batched, hash.hash_file/_hash_file/file_md5/fobj_md5, build._get_hashes/_hash_files/build/_build_tree, "
                  "index.build.build/build_entries, index.save.md5/_meta_matches, index.update.update, index.diff (meta_only)",
          stubs=("model filesystem with a logical clock", "SQLite behind HashesCache -> dict answering the three SQL statements it issues, enforcing "
                 "the scaled parameter limit", "diskcache links table -> dict")),
        H("legacy-checkout", "vf.harness.c13_stale", "h_legacy", cubes_legacy, timeout={"quick": 200, "thorough": 600}, real=True,
          bounds={"quick": "tree of two text files (CRLF / LF variants symbolic) staged into a legacy md5-dos2unix store sharing the state, loaded and "
                           "checked out (relink symbolic); then a single or batched md5 query for either file", "thorough": "three link types"},
          smoke=[{"args": dict(v0=False, v1=True, batched=True, kk=True, relink=False), "cube": {}}],
          encodes="hashfile.load/Tree.load/from_list, checkout.checkout/_checkout/_checkout_file, State.save/save_many/get/get_many, hash_file, "
                  "build._get_hashes/build", stubs=("model filesystem", "model hash-state tables")),
    ],
    assumptions=["every content mutation changes the file's size, modification time or inode relative to every state recorded earlier (as the property "
                 "states); inode numbers are not reused", "fsspec.utils.tokenize is a deterministic injective function of (ino, mtime, size)",
                 "SQLite returns what was stored"],
    outside=["the real SQL engine and the literal 999 boundary", "races other than one rewrite between hash_file's read of the content and its state save (cube race)", "histories longer than 3 mutations"],
    explanation="CrossHair runs the real State/HashesCache/hash_file/_get_hashes/build/md5/update code on the model filesystem; the mutation history "
                "(kind per step, content variant, whether an intermediate query happens) is symbolic; each mutation changes exactly one component "
                "of the validity token, so dropping any component from the token is visible; every answer is compared with hashlib on the current bytes.",
)
