from vf.runner import H, Spec


def cubes_access(tier):
    if tier == "quick":
        return [dict(lazy="d", op1=o, nops=2, ops2=[0, 1, 2, 3], _w=2) for o in range(7)] + \
               [dict(lazy="d", op1=o, nops=2, ops2=[4, 5, 6], _w=2) for o in (0, 1, 4)] + \
               [dict(lazy="d/s", op1=o, nops=2, ops2=[0, 1, 2], _w=2) for o in (1, 2, 6)] + \
               [dict(lazy="d", op1=1, nops=1, symshape=True)] + \
               [dict(lazy="d", op1=6, nops=2, ops2=[0, 6], where="remote", _w=2), dict(lazy="d/s", op1=1, nops=2, ops2=[6], where="remote")] + \
               [dict(lazy="d", op1=o, nops=2, ops2=[0, 1, 2, 3], backend="sqlite", _w=2) for o in (0, 1, 2)] + \
               [dict(lazy="d/s", op1=4, nops=2, ops2=[1, 5, 6], backend="sqlite", _w=2)]
    out = [dict(lazy=l, op1=o, nops=2, shape=s, _w=2) for l in ("d", "d/s") for o in range(7)
           for s in ([1, 1, 1, 1], [1, 0, 1, 1], [0, 1, 1, 0], [1, 1, 0, 1]) if not (l == "d/s" and not s[2])]  # d/s needs its file d/s/b
    out += [dict(lazy="d", op1=o, nops=3, _w=8) for o in range(7)]
    out += [dict(lazy=l, op1=o, nops=2, where="remote", _w=2) for l in ("d", "d/s") for o in range(7)]
    out += [dict(lazy=l, op1=o, nops=2, backend="sqlite", _w=3) for l in ("d", "d/s") for o in range(7)]
    return out


def cubes_view(tier):
    if tier == "quick":
        return [dict(lazy="d"), dict(lazy="d/s"), dict(lazy="d", backend="sqlite")]
    return [dict(lazy=l, symshape=True, backend=b) for l in ("d", "d/s") for b in ("memory", "sqlite")]


def cubes_reopen(tier):
    if tier == "quick":
        return [dict(lazy="d", backend="sqlite-named")]
    return [dict(lazy=l, backend="sqlite-named", symshape=True) for l in ("d", "d/s")]


SPEC = Spec(
    pid="C17",
    title="Lazy directory loading, filtered views and the fs adaptor are transparent",
    harnesses=[
        H("access", "vf.harness.c17_lazy", "h_access", cubes_access, timeout={"quick": 500, "thorough": 1800},
          bounds={"quick": "index over f, d/a, d/s/b (empty), d/u/v/w (duplicate content, below an intermediate directory that holds no file) with `d` (or `d/s`) held as one unloaded directory-object entry; access "
                           "sequences of 2 operations over {lookup, iterate prefix, ls, info, adaptor ls, adaptor info, adaptor open} x 8 keys (root, "
                           "files, directories, implicit sub-directory, absent key): first operation = cube, the rest symbolic",
                  "thorough": "4 tree shapes, sequences of 3 operations"},
          smoke=[{"args": dict(o2=1, o3=6, k1=2, k2=4, k3=5, p1=True, p2=True, p3=True), "cube": {"lazy": l, "op1": 3, "nops": 3}} for l in ("d", "d/s")],
          encodes="DataIndex.__getitem__/_load/iteritems/ls/info/_ensure_loaded/longest_prefix/load/_info_from_entry, _load_from_storage/"
                  "_load_from_object_storage, Tree.load/from_list/iteritems, StorageMapping.__getitem__, ObjectStorage.get, index.diff.diff(hash_only), "
                  "DataFileSystem._get_key/info/ls/_get_fs_path/_open",
          stubs=("model filesystem holding the cache", "in-memory (pygtrie) index")),
        H("reopen", "vf.harness.c17_lazy", "h_reopen", cubes_reopen, timeout={"quick": 300, "thorough": 900},
          bounds={"quick": "SQLite-backed index (named in-memory database kept alive across close): one symbolic access (7 operations x 8 keys) that "
                           "may load the directory, full load, removal of a symbolic entry below it, commit, close, re-open; the re-opened index "
                           "must list what the explicit index lists after the same removal", "thorough": "plus symbolic tree shape, both lazy roots"},
          smoke=[{"args": dict(o1=1, k1=0, dk=0, p1=True, p2=True, p3=True), "cube": {"lazy": "d", "backend": "sqlite-named"}}],
          encodes="DataIndex.open/commit/close/load/_load/__delitem__/iteritems, DataIndexTrie._load/_dump/__setitem__/__delitem__/open, DataIndexEntry.to_dict/from_dict, "
                  "sqltrie.JSONTrie (traced); sqltrie.SQLiteTrie + sqlite3 executed concretely outside tracing",
          stubs=("model filesystem holding the cache", "sqltrie's SQL layer untraced")),
        H("view", "vf.harness.c17_lazy", "h_view", cubes_view, timeout={"quick": 200, "thorough": 900},
          bounds={"quick": "prefix-closed filter 'on the path to or below P' for a symbolic P out of 7 keys; lookup and listing of a symbolic key through the view",
                  "thorough": "plus symbolic tree shape"},
          smoke=[{"args": dict(pi=4, q=4, p1=True, p2=True, p3=True), "cube": {"lazy": "d"}}],
          encodes="index.view.view/DataIndexView.iteritems/_iteritems/_load_dir_keys/traverse/__getitem__/ls", stubs=("model filesystem",)),
    ],
    assumptions=["directory objects in the cache are intact", "the expanded reference index lists what the directory object lists"],
    outside=["SQLite-backed indexes on disk (the `backend=sqlite` cubes use sqltrie's private in-memory database; its SQL layer runs concretely, outside tracing)", "FileStorage-backed directories", "more than 4 files / depth 3", "access sequences longer than 3"],
    explanation="CrossHair runs the real DataIndex / DataIndexView / DataFileSystem code with the access sequence (operation kinds and keys) and the "
                "view's filter prefix symbolic; every observation on the lazily loaded index must equal the same observation on an explicitly listed "
                "index; bytes through the adaptor are compared with the generated contents.",
)
