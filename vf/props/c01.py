from vf.runner import H, Spec


def cubes_layout(tier):
    return [{"maxlen": 5 if tier == "quick" else 7}]


def cubes_inj(tier):
    return [{"maxlen": 4 if tier == "quick" else 5}]


def cubes_ops(tier):
    seqs = ["S", "F", "U", "SX", "SI", "SM", "SXM", "LS"]
    if tier == "quick":
        out = [dict(ops=o, cls=c, prop="C01", _w=len(o)) for o in seqs for c in ("local", "base")]
        out += [dict(ops="S", cls="local", prop="C01", pre=p) for p in (1, 2)] + [dict(ops="SX", cls="base", prop="C01", trailing=True, depth=[1, 2, 0])]
        out += [dict(ops="SI", cls="local", prop="C01", names=n, state=True, depth=[1, 2, 2], _w=2) for n in (1, 2)]
        out += [dict(ops="SM", cls=c, prop="C01", dirname=True, _w=2) for c in ("local", "base")]  # stores below a folder named '*.dir*'
        out += [dict(ops="SM", cls="base", prop="C01", cross=True, _w=2)]  # migrate an unprotecting base store into a local store (hardlinks)
        return out
    seqs += ["US", "SIM", "FSX", "UXM", "SXI", "LSM", "SL", "LU"]
    out = [dict(ops=o, cls=c, prop="C01", names=n, state=st, pre=p, _w=len(o))
           for o in seqs for c in ("local", "base") for n, st, p in ((0, False, 0), (1, True, 1), (2, False, 2))]
    out += [dict(ops="SXM", cls=c, prop="C01", depth=d, names=1, _w=3) for c in ("local", "base") for d in ([0, 0, 0], [2, 2, 2], [1, 2, 2])]
    out += [dict(ops=o, cls=c, prop="C01", dirname=True, names=1, _w=3) for c in ("local", "base") for o in ("SXM", "SIM", "LSM")]
    out += [dict(ops=o, cls=c, prop="C01", cross=True, names=n, _w=3) for c in ("local", "base") for o in ("SM", "SXM", "UM") for n in (0, 1)]
    return out


SMOKE = dict(p0=True, p1=True, p2=True, c0=1, c1=3, c2=0, pre=1)
OPS_ENC = ("build.build/_build_tree/_build_files/_build_file/_upload_file/_get_hashes/_hash_files/_walk_files/_get_staging, Tree.digest/as_bytes/as_list/"
           "load/from_list, db.add_update_tree, HashFileDB.add/check/protect/get, LocalHashFileDB.protect/check/makedirs/oid_to_path, "
           "ReferenceHashFileDB.add/get/exists, transfer.transfer/_do_transfer/_add, status.*, migrate.prepare/_hash_task/migrate, "
           "index.build.build/build_entries, index.save.md5/save/_save_dir_entry/build_tree, hash.hash_file/_hash_file/file_md5/fobj_md5/HashStreamFile")

SPEC = Spec(
    pid="C01",
    title="Object stores are content-addressed: every object is named by its own digest",
    harnesses=[
        H("layout", "vf.harness.c01_layout", "h_layout", cubes_layout, timeout={"quick": 200, "thorough": 900},
          bounds={"quick": "object id = arbitrary hex string of length 3..5, optionally with the .dir suffix", "thorough": "length 3..7"},
          smoke=[{"args": {"oid": "abc12", "isdir": True}, "cube": {}}],
          encodes="LocalHashFileDB.oid_to_path, ObjectDB.oid_to_path/_oid_parts/path_to_oid, LocalFileSystem.join/parts/isabs/abspath (posixpath)"),
        H("layout-injective", "vf.harness.c01_layout", "h_injective", cubes_inj, timeout={"quick": 200, "thorough": 900},
          bounds={"quick": "two hex ids of length 3..4", "thorough": "length 3..5"},
          smoke=[{"args": {"a": "abc1", "b": "abc2"}, "cube": {}}], encodes="LocalHashFileDB.oid_to_path"),
        H("ops", "vf.harness.c01_ops", "h_ops", cubes_ops, timeout={"quick": 400, "thorough": 1500}, real=True,
          bounds={"quick": "source tree of 1..3 files at nesting depths 0/1/2 (+ an empty directory); contents from {empty, CRLF text, binary, duplicate of "
                           "the first}; operation sequences {stage dir, stage file, upload-stage, store->store transfer, index save, migrate to sha256, legacy md5-dos2unix "
                           "staging sharing the hash-state cache} "
                           "of length <= 3 on both store classes; every store audited after every step",
                  "thorough": "12 sequences x 2 classes x odd names (non-ASCII, space, backslash, '.dir' suffix) / state / pre-existing objects"},
          smoke=[{"args": SMOKE, "cube": {"ops": o, "cls": "local", "names": 1, "prop": "C01", "state": True}} for o in ("SXM", "U", "SI", "F")],
          encodes=OPS_ENC, stubs=("model filesystem / model os", "model hash-state tables", "fsspec memory filesystem used for real (staging trees)")),
    ],
    assumptions=["hashlib digests are the reference (the oracle re-hashes every stored object with hashlib directly)",
                 "json.dumps(sort_keys=True) is deterministic"],
    outside=["trees with more than 3 files", "files larger than one read (C14 covers chunking)", "chmod semantics of exotic filesystems",
             "sequences longer than 3 operations"],
    explanation="CrossHair runs the real staging/add/transfer/save/migrate code on model stores with tree shape and file contents selected "
                "symbolically; after every operation every object of every store is listed directly from the model and re-hashed independently; "
                "directory objects are re-encoded canonically and compared byte-for-byte.",
)
