"""Scenario environments.

ModelEnv  - model filesystem + model OS + model state tables (used under CrossHair and for the first replay stage)
RealEnv   - the real local filesystem in a scratch directory, real stores, real State on SQLite (second replay stage
            and differential model validation)

Both expose the same small API so a harness body is written once and replays on the real code/real disk unchanged.
Only dependencies and the OS are ever replaced; dvc-data's own functions always run for real.
"""
import contextlib
import errno
import hashlib
import os
import posixpath
import shutil
import stat as _stat
import sys
import tempfile

from vf import hlib
from vf.hlib import HarnessGap
from vf.modelfs import ROOT, Crash, ModelInner, ModelLocalFS, ModelOS, ModelRemoteFS, localfs_info_for

CUR = None  # current ModelEnv (patched module functions dispatch through it)
_installed = False


# --------------------------------------------------------------------------------------------- model tables
class ModelLinks(dict):
    """stands in for diskcache.Cache used as State.links"""

    def __enter__(self):
        return self

    def __exit__(self, *a):
        return False

    def close(self):
        pass


def make_model_hashes():
    """The real HashesCache class (its get/get_many/set_many/is_empty code runs for real) over a stub SQL layer."""
    from dvc_data.hashfile.cache import HashesCache

    class _Cur:
        def __init__(self, rows):
            self.rows = rows

        def fetchall(self):
            return list(self.rows)

        def __iter__(self):
            return iter(self.rows)

    def _actor():
        return getattr(CUR.inner, "actor", 0) if CUR is not None and hasattr(CUR, "inner") else 0

    class _Con:
        """one connection per thread of control, as diskcache keeps them (sqlite3 refuses use from another thread)"""

        def __init__(self, owner_obj, owner):
            self.o = owner_obj
            self.table = owner_obj.table
            self.owner = owner

        def _affinity(self):
            if self.owner != _actor():
                import sqlite3

                raise sqlite3.ProgrammingError("SQLite objects created in a thread can only be used in that same thread")

        def executemany(self, query, items):
            self._affinity()
            if "INSERT" not in query:
                raise HarnessGap(f"unmodelled SQL: {query}")
            items = list(items)
            # one transaction = one crash point: all rows or none
            if CUR is None or CUR.inner._mut("state-commit", len(items)):
                for k, v in items:
                    self.table[k] = v

        def execute(self, query, params=()):
            self._affinity()
            self.o.sql_log.append((query.split(" FROM")[0][:40], len(params)))
            if query.startswith("SELECT EXISTS"):
                return _Cur([(1 if self.table else 0,)])
            if query.startswith("SELECT key, value FROM Cache WHERE key IN"):
                if query.count("?") != len(params):
                    raise HarnessGap("SQL parameter count mismatch")
                lim = getattr(self.o, "SQLITE_LIMIT", 999)
                if len(params) > lim:
                    import sqlite3

                    raise sqlite3.OperationalError("too many SQL variables")
                return _Cur([(k, self.table[k]) for k in params if k in self.table])
            if query.startswith("SELECT value FROM Cache WHERE key = ?"):
                (k,) = params
                return _Cur([(self.table[k],)] if k in self.table else [])
            raise HarnessGap(f"unmodelled SQL: {query}")

    class ModelHashes(HashesCache):
        def __init__(self):  # no diskcache / sqlite
            self.table = {}
            self._cons = {}
            self.sql_log = []

        @property
        def _con(self):  # diskcache: thread-local connection
            a = _actor()
            if a not in self._cons:
                self._cons[a] = _Con(self, a)
            return self._cons[a]

        @property
        def _sql(self):  # diskcache: `return self._con.execute`
            return self._con.execute

        @contextlib.contextmanager
        def transact(self, retry=False):
            yield

        def __setitem__(self, key, value):
            if CUR is None or CUR.inner._mut("state-commit", 1):
                self.table[key] = value

        def close(self):
            pass

    return ModelHashes()


class ModelIndexDict(dict):
    """stands in for diskcache.Index used by ObjectDBIndex"""

    @contextlib.contextmanager
    def transact(self):
        yield


def make_model_odb_index():
    from dvc_data.hashfile.db.index import ObjectDBIndex

    idx = ObjectDBIndex.__new__(ObjectDBIndex)
    idx.index = ModelIndexDict()
    idx._cache = ModelLinks()
    return idx


# --------------------------------------------------------------------------------------------- patching (model mode)
class _OSProxy:
    def __getattr__(self, name):
        return getattr(CUR.mos, name)


class _LocalFSProxy:
    """dvc_objects.fs.generic.localfs -> the current model local fs"""

    def __getattr__(self, name):
        return getattr(CUR.fs, name)


_patches = []  # (obj, attr, original)


def _patch(obj, attr, value):
    _patches.append((obj, attr, getattr(obj, attr)))
    setattr(obj, attr, value)


def _uninstall_model():
    global _installed
    while _patches:
        obj, attr, orig = _patches.pop()
        setattr(obj, attr, orig)
    _installed = False


def _install_model():
    global _installed
    if _installed:
        return
    _installed = True
    hlib.install_quiet()
    import dvc_data.hashfile.build as B
    import dvc_data.hashfile.checkout as C
    import dvc_data.hashfile.db.local as L
    import dvc_data.hashfile.state as S
    import dvc_data.hashfile.utils as U
    import dvc_data.index.checkout as IC
    import dvc_objects.fs.generic as G
    import dvc_objects.fs.local as OL
    import dvc_objects.fs.memory as OM
    import dvc_objects.fs.utils as OU

    prox = _OSProxy()
    _patch(L, "os", prox)
    _patch(IC, "os", prox)

    def li(path):
        return localfs_info_for(CUR.inner)(path)

    for m in (L, B, C, U):
        _patch(m, "_localfs_info", li)

    def ino(path):
        return CUR.inner.stat(path, follow=False)["ino"]

    _patch(C, "inode", ino)
    _patch(S, "get_inode", ino)

    def copyfile(src, dst, callback=None, **kw):
        i = CUR.inner
        if i.isdir(dst):
            dst = posixpath.join(dst, posixpath.basename(src))
        i._p_create(dst, i.read(src), 0o666)

    def remove(path):
        CUR.inner.rm_file(path)

    def tmp_fname(prefix=""):
        CUR.tmpn += 1
        return f"{prefix}.vf{CUR.tmpn}.tmp"

    def makedirs(path, exist_ok=False, mode=None):
        CUR.inner.makedirs(path, exist_ok=exist_ok)

    for m, a, v in ((L, "copyfile", copyfile), (L, "remove", remove), (L, "tmp_fname", tmp_fname), (OU, "tmp_fname", tmp_fname),
                    (OL, "tmp_fname", tmp_fname), (OU, "makedirs", makedirs), (OU, "copyfile", copyfile), (OU, "remove", remove),
                    (G, "localfs", _LocalFSProxy())):
        _patch(m, a, v)

    def mem_get_file(self, from_info, to_info, callback=None, **kw):
        CUR.inner._p_create(to_info, self.fs.cat_file(from_info), 0o666)

    _patch(OM.MemoryFileSystem, "get_file", mem_get_file)

    def remote_get_file(self, from_info, to_info, callback=None, **kw):
        CUR.inner._p_create(to_info, self.fs.read(from_info), 0o666)

    def remote_put_file(self, from_file, to_info, callback=None, size=None, **kw):
        data = from_file.read() if hasattr(from_file, "read") else CUR.inner.read(from_file)
        self.makedirs(self.parent(to_info))
        self.fs._copy_atomic(data, to_info)

    ModelRemoteFS.get_file = remote_get_file
    ModelRemoteFS.put_file = remote_put_file
    _install_guard()


_guard_on = False


def _install_guard():
    """Containment: no real-disk mutation may happen in model mode (a leak would make results unsound)."""
    global _guard_on
    if _guard_on:
        return
    _guard_on = True
    allowed = tuple(filter(None, [os.environ.get("VERIF_SCRATCH_DIR"), "/dev/null", "/var/tmp/vfj-"]))

    def ok(path):
        p = os.fspath(path) if not isinstance(path, int) else ""
        if isinstance(p, bytes):
            p = p.decode(errors="replace")
        return isinstance(path, int) or any(p.startswith(a) for a in allowed)

    def hook(event, args):
        if CUR is None:
            return
        if event == "open":
            path, mode, flags = args
            writing = (isinstance(mode, str) and any(c in mode for c in "wax+")) or \
                      (isinstance(flags, int) and flags & (os.O_WRONLY | os.O_RDWR | os.O_CREAT | os.O_TRUNC | os.O_APPEND))
            if writing and not ok(path):
                raise HarnessGap(f"real-disk write attempted in model mode: open({path!r}, {mode!r})")
        elif event in ("os.mkdir", "os.rename", "os.remove", "os.rmdir", "os.chmod", "os.link", "os.symlink", "os.truncate", "shutil.rmtree",
                       "shutil.move", "shutil.copyfile"):
            if not ok(args[0]):
                raise HarnessGap(f"real-disk mutation attempted in model mode: {event}{args!r}")
        elif event == "sqlite3.connect":
            # CrossHair's own side-effect wall is opened for this event (SQLite-backed index cubes); only private in-memory
            # databases may pass
            db = str(args[0])
            if not (db == ":memory:" or ("mode=memory" in db and db.startswith("file:"))):
                raise HarnessGap(f"on-disk SQLite database opened in model mode: {db!r}")

    sys.addaudithook(hook)


# --------------------------------------------------------------------------------------------- fault injection (both modes)
class Faults:
    """Wraps dvc_objects.fs.generic.transfer as looked up by ObjectDB.add: per destination path an upload can be made to
    fail (reported through on_error, as a failing copy would be) and the whole process can be killed at the k-th upload."""

    def __init__(self):
        self.fail = set()  # destination paths whose upload fails
        self.exc_kind = None  # optional callable(path) -> exception instance for a failing upload
        self.abort_at = None  # index of the upload event at which the process dies (Crash)
        self.events = []  # (to_path, outcome)
        self.after_event = None  # callback(to_path, outcome) after each upload event
        self._orig = None

    def install(self):
        import dvc_objects.fs.generic as G

        if getattr(G.transfer, "_vf_wrapped", False):
            G.transfer._vf_faults[0] = self
            return
        orig = G.transfer
        holder = [self]

        def transfer(from_fs, from_path, to_fs, to_path, hardlink=False, links=None, callback=None, batch_size=None, on_error=None, **kw):
            f = holder[0]
            fps = [from_path] if isinstance(from_path, str) else list(from_path)
            tps = [to_path] if isinstance(to_path, str) else list(to_path)
            kwargs = dict(hardlink=hardlink, links=links, batch_size=batch_size)
            if callback is not None:
                kwargs["callback"] = callback
            for fp, tp in zip(fps, tps):
                if f.abort_at is not None and len(f.events) == f.abort_at:
                    f.events.append((tp, "abort"))
                    raise Crash(("upload", tp))
                if tp in f.fail:
                    f.events.append((tp, "fail"))
                    exc = f.exc_kind(tp) if f.exc_kind else OSError(errno.EIO, "injected upload failure", tp)
                    if on_error is None:
                        raise exc
                    on_error(fp, tp, exc)
                else:
                    errs = []

                    def oe(a, b, e, _errs=errs):
                        _errs.append(e)
                        if on_error is None:
                            raise e
                        on_error(a, b, e)

                    orig(from_fs, fp, to_fs, tp, on_error=oe if on_error is not None else None,
                         **{k: (list(v) if isinstance(v, list) else v) for k, v in kwargs.items()})
                    f.events.append((tp, "error" if errs else "ok"))
                if f.after_event:
                    f.after_event(tp, f.events[-1][1])

        transfer._vf_wrapped = True
        transfer._vf_faults = holder
        G.transfer = transfer


# --------------------------------------------------------------------------------------------- environments
class BaseEnv:
    mode = "?"

    def p(self, *parts):
        return "/".join((self.root, *parts))

    def md5(self, data):
        return hashlib.md5(data).hexdigest()

    def odb_objects(self, odb):
        """{oid: bytes} by walking the store directory directly (independent of dvc-data's listing code)"""
        out = {}
        snap = self.snapshot(odb.path, fs=odb.fs)
        for rel, (kind, data, *_rest) in snap.items():
            parts = rel.split("/")
            if kind in ("file", "link") and len(parts) == 2 and len(parts[0]) == 2:
                out[parts[0] + parts[1]] = data if kind == "file" else self.read(posixpath.join(odb.path, rel), fs=odb.fs)
        return out

    def odb_modes(self, odb):
        snap = self.snapshot(odb.path, fs=odb.fs)
        return {"".join(rel.split("/")): mode for rel, (kind, data, mode, *_r) in snap.items() if kind == "file" and rel.count("/") == 1}


class ModelEnv(BaseEnv):
    mode = "model"

    def __init__(self):
        global CUR
        _install_model()
        self.root = ROOT
        self.inner = ModelInner()
        self.fs = ModelLocalFS(self.inner)
        self.mos = ModelOS(self.inner)
        self.tmpn = 0
        self.remotes = {}
        self.faults = Faults()
        self.faults.install()
        CUR = self
        self.inner.makedirs(ROOT, exist_ok=True)
        self.inner.log.clear()

    # workspace-side actions (the "user"): direct model writes
    def write(self, path, data, mode=None, fs=None):
        i = (fs or self.fs).fs
        i.makedirs(posixpath.dirname(path), exist_ok=True)
        i.write(path, data)
        if mode is not None:
            i._p_chmod(path, mode)

    def read(self, path, fs=None):
        return (fs or self.fs).fs.read(path)

    def mkdir(self, path, fs=None):
        (fs or self.fs).fs.makedirs(path, exist_ok=True)

    def exists(self, path, fs=None):
        return (fs or self.fs).fs.lexists(path)

    def remove(self, path, fs=None):
        (fs or self.fs).fs.rm_file(path)

    def chmod(self, path, mode, fs=None):
        (fs or self.fs).fs._p_chmod(path, mode)

    def replace(self, path, data, fs=None):
        """atomic replacement by rename: new inode"""
        i = (fs or self.fs).fs
        i.write(path + ".new", data)
        i._p_rename(path + ".new", path)

    def touch(self, path, fs=None):
        i = (fs or self.fs).fs
        q = i._resolve(path)
        i.files[q].mtime = i._tick()

    def symlink(self, target, path):
        self.inner.makedirs(posixpath.dirname(path), exist_ok=True)
        self.inner._p_symlink(target, path)

    def hardlink(self, src, path):
        self.inner.makedirs(posixpath.dirname(path), exist_ok=True)
        self.inner._p_link(src, path)

    def snapshot(self, path, fs=None):
        return (fs or self.fs).fs.snapshot(path)

    def on_read_once(self, action):
        """run `action()` right after the next file read through the filesystem layer has delivered its content"""
        self.inner.after_read = lambda path: action()

    def stat(self, path, fs=None):
        return (fs or self.fs).fs.stat(path, follow=False)

    # stores
    def local_odb(self, name, **cfg):
        from dvc_data.hashfile.db.local import LocalHashFileDB

        self.inner.makedirs(self.p(name), exist_ok=True)
        return LocalHashFileDB(self.fs, self.p(name), **cfg)

    def base_odb(self, name, **cfg):
        from dvc_data.hashfile.db import HashFileDB

        self.inner.makedirs(self.p(name), exist_ok=True)
        return HashFileDB(self.fs, self.p(name), **cfg)

    def remote_fs(self, name="r"):
        if name not in self.remotes:
            self.remotes[name] = ModelRemoteFS(ModelInner())
        return self.remotes[name]

    def remote_odb(self, name, fsname="r", **cfg):
        from dvc_data.hashfile.db import HashFileDB

        fs = self.remote_fs(fsname)
        fs.fs.makedirs("/" + name, exist_ok=True)
        return HashFileDB(fs, "/" + name, **cfg)

    def state(self):
        from dvc_data.hashfile.state import State

        st = State.__new__(State)
        st.tmp_dir = self.p(".tmp")
        st.root_dir = self.root
        st.ignore = None
        st.hashes = make_model_hashes()
        st.links = ModelLinks()
        return st

    def odb_index(self):
        return make_model_odb_index()

    def close(self):
        global CUR
        with hlib.NoTracing():
            CUR = None
            _uninstall_model()


class RealRemoteFS:
    pass


def _make_real_remote_cls():
    from dvc_objects.fs.base import FileSystem
    from dvc_objects.fs.local import FsspecLocalFileSystem

    class RealRemote(FileSystem):
        """a non-local remote for real-mode replays: plain FileSystem over the real disk"""

        protocol = "modelremote"
        PARAM_CHECKSUM = "md5"
        CAN_TRAVERSE = True
        TRAVERSE_PREFIX_LEN = 2
        sep = "/"

        def __init__(self, **kw):
            super().__init__(fs=FsspecLocalFileSystem(), **kw)
            self.jobs = 1

    return RealRemote


class RealEnv(BaseEnv):
    mode = "real"

    def __init__(self):
        from dvc_objects.fs.local import LocalFileSystem

        hlib.install_quiet()
        base = os.environ.get("VERIF_SCRATCH_DIR") or os.environ.get("VERIF_SCRATCH") or "/var/tmp"
        self.root = tempfile.mkdtemp(prefix="vf-real-", dir=base)
        self.fs = LocalFileSystem()
        self.fs.jobs = 1
        self.remotes = {}
        self._states = []
        self.faults = Faults()
        self.faults.install()
        self._umask = os.umask(0o022)
        # user-side writes get explicit timestamps from a logical clock in steps of 0.25 s (mirrors the model's clock, so that
        # replays of timestamp-sensitive counterexamples do not depend on how fast the replay runs)
        import time

        self._clock = float(int(time.time()) - 7200)

    def _stamp(self, path):
        self._clock += 0.25
        try:
            os.utime(path, (self._clock, self._clock), follow_symlinks=False)
        except (OSError, NotImplementedError):
            pass

    def write(self, path, data, mode=None, fs=None):
        os.makedirs(os.path.dirname(path), exist_ok=True)
        if os.path.lexists(path) and not os.path.islink(path) and not os.access(path, os.W_OK):
            os.chmod(path, 0o644)
        with open(path, "wb") as f:
            f.write(data)
        if mode is not None:
            os.chmod(path, mode)
        self._stamp(path)

    def read(self, path, fs=None):
        with open(path, "rb") as f:
            return f.read()

    def mkdir(self, path, fs=None):
        os.makedirs(path, exist_ok=True)

    def exists(self, path, fs=None):
        return os.path.lexists(path)

    def remove(self, path, fs=None):
        if os.path.isdir(path) and not os.path.islink(path):
            shutil.rmtree(path)
        elif os.path.lexists(path):
            os.unlink(path)

    def chmod(self, path, mode, fs=None):
        os.chmod(path, mode)

    def replace(self, path, data, fs=None):
        with open(path + ".new", "wb") as f:
            f.write(data)
        os.replace(path + ".new", path)
        self._stamp(path)

    def touch(self, path, fs=None):
        self._stamp(path)

    def symlink(self, target, path):
        os.makedirs(os.path.dirname(path), exist_ok=True)
        os.symlink(target, path)

    def hardlink(self, src, path):
        os.makedirs(os.path.dirname(path), exist_ok=True)
        os.link(src, path)

    def snapshot(self, path, fs=None):
        out = {}
        for root, dirs, files in os.walk(path):
            for d in list(dirs):
                full = os.path.join(root, d)
                rel = os.path.relpath(full, path)
                if os.path.islink(full):
                    out[rel] = ("link", os.readlink(full), 0o777, os.lstat(full).st_ino, 1)
                else:
                    st = os.lstat(full)
                    out[rel] = ("dir", None, _stat.S_IMODE(st.st_mode), st.st_ino, st.st_nlink)
            for f in files:
                full = os.path.join(root, f)
                rel = os.path.relpath(full, path)
                st = os.lstat(full)
                if _stat.S_ISLNK(st.st_mode):
                    out[rel] = ("link", os.readlink(full), 0o777, st.st_ino, 1)
                else:
                    with open(full, "rb") as fh:
                        out[rel] = ("file", fh.read(), _stat.S_IMODE(st.st_mode), st.st_ino, st.st_nlink)
        return out

    def on_read_once(self, action):
        inner = self.fs.fs
        orig = inner.open
        done = []

        def opener(path, mode="r", encoding=None, **kw):
            f = orig(path, mode=mode, encoding=encoding, **kw)
            if "r" in mode and not done:
                done.append(1)
                inner.open = orig
                real_close = f.close

                class Proxy:
                    def __getattr__(s, n):
                        return getattr(f, n)

                    def __enter__(s):
                        return s

                    def __exit__(s, *a):
                        s.close()
                        return False

                    def __iter__(s):
                        return iter(f)

                    def close(s):
                        real_close()
                        action()

                return Proxy()
            return f

        inner.open = opener

    def stat(self, path, fs=None):
        st = os.lstat(path)
        return dict(size=st.st_size, mode=st.st_mode, ino=st.st_ino, nlink=st.st_nlink, mtime=st.st_mtime,
                    islink=_stat.S_ISLNK(st.st_mode), type="directory" if _stat.S_ISDIR(st.st_mode) else "file")

    def local_odb(self, name, **cfg):
        from dvc_data.hashfile.db.local import LocalHashFileDB

        os.makedirs(self.p(name), exist_ok=True)
        return LocalHashFileDB(self.fs, self.p(name), **cfg)

    def base_odb(self, name, **cfg):
        from dvc_data.hashfile.db import HashFileDB

        os.makedirs(self.p(name), exist_ok=True)
        return HashFileDB(self.fs, self.p(name), **cfg)

    def remote_fs(self, name="r"):
        if name not in self.remotes:
            self.remotes[name] = _make_real_remote_cls()()
        return self.remotes[name]

    def remote_odb(self, name, fsname="r", **cfg):
        from dvc_data.hashfile.db import HashFileDB

        path = self.p("remote-" + fsname, name)
        os.makedirs(path, exist_ok=True)
        return HashFileDB(self.remote_fs(fsname), path, **cfg)

    def state(self):
        from dvc_data.hashfile.state import State

        st = State(root_dir=self.root, tmp_dir=self.p(".tmp"))
        self._states.append(st)
        return st

    def odb_index(self):
        from dvc_data.hashfile.db.index import ObjectDBIndex

        return ObjectDBIndex(self.p(".tmp"), "idx")

    def close(self):
        for st in self._states:
            try:
                st.close()
            except Exception:  # noqa: BLE001
                pass
        os.umask(self._umask)

        def _onerr(func, p, exc):
            try:
                os.chmod(p, 0o700)
                func(p)
            except OSError:
                pass

        shutil.rmtree(self.root, onerror=_onerr)


def reset_process_state():
    """Every explored path stands for a fresh process: memoised answers held in dvc-data module globals (functools caches) must
    not leak from one path into the next (they would make a counterexample depend on the exploration order)."""
    for name, mod in list(sys.modules.items()):
        if name == "dvc_data" or name.startswith("dvc_data."):
            for attr in list(vars(mod).values()):
                clear = getattr(attr, "cache_clear", None)
                if callable(clear):
                    try:
                        clear()
                    except Exception:  # noqa: BLE001
                        pass


def make_env():
    with hlib.NoTracing():  # environment construction is set-up, not code under analysis
        reset_process_state()
        return RealEnv() if hlib.MODE == "real" else ModelEnv()
