"""C09 - index-level checkout (index/checkout.py compare/apply) converges from any workspace state.

Nested universe a, a/b, a/b/c, d.  Prior workspace and target each choose, per node, absent / file / directory (children
only below directories), so every file<->directory replacement at depth <= 2 occurs.  Prior file bytes equal the target's or not,
executable bits and availability of the source object in the cache are symbolic.
cube: link ("copy"|"hardlink"|"symlink"), delete (bool), form ("explicit"|"lazy"), ka (prior kind of `a`, optional split)
"""
import hashlib

from dvc_data.hashfile.hash_info import HashInfo
from dvc_data.hashfile.meta import Meta
from dvc_data.hashfile.tree import Tree
from dvc_data.index import DataIndex, DataIndexEntry, FileStorage, ObjectStorage
from dvc_data.index.build import build_entries
from dvc_data.index.checkout import apply, compare

from vf.env import make_env
from vf.hlib import B, HarnessGap, NoTracing, cube, journal, pick, violation

LINK = cube("link", "copy")
DELETE = bool(cube("delete", True))
FORM = cube("form", "explicit")
TGT = {"a": b"TA\n", "a/b": b"TB\r\n", "a/b/c": b"", "d": b"TD", "a/b/c/f": b"deep"}
DEEP = bool(cube("deep", False))  # the target's a/b/c is a directory holding f: a/b then holds no file of its own
OTHER = {"a": b"user-a", "a/b": b"user-b", "a/b/c": b"user-c", "d": b"user-d"}


def _shape(ka, kb, kc, kd):
    """{relpath: 'file'|'dir'} for kinds (0 absent, 1 file, 2 dir)"""
    out = {}
    if ka == 1:
        out["a"] = "file"
    elif ka == 2:
        out["a"] = "dir"
        if kb == 1:
            out["a/b"] = "file"
        elif kb == 2:
            out["a/b"] = "dir"
            if kc == 1:
                out["a/b/c"] = "file"
    if kd == 1:
        out["d"] = "file"
    return out


def _kinds(a, b, c, d, fixed_a=None):
    ka = fixed_a if fixed_a is not None else pick(a, 0, 2)
    kb = pick(b, 0, 2) if ka == 2 else 0
    kc = pick(c, 0, 1) if kb == 2 else 0
    kd = pick(d, 0, 1)
    return ka, kb, kc, kd


def _kinds_prior(a, b, c, d):
    ka, kb, kc, kd = _kinds(a, b, c, d if cube("kd", None) is None else cube("kd"), cube("ka", None))
    return ka, kb, kc, kd


def _old_index(path, fs, with_hashes=True):
    idx = DataIndex()
    idx.storage_map.add_data(FileStorage(key=(), fs=fs, path=path))
    for entry in build_entries(path, fs, compute_hash=with_hashes):
        idx.add(entry)
    return idx


def h_converge(pa: int, pb: int, pc: int, pd: int, ta: int, tb: int, tc: int, td: int,
               sa: bool, sb: bool, sc: bool, sd: bool, xa: bool, xd: bool, ub: bool, ud: bool) -> bool:
    """
    pre: 0 <= pa <= 2 and 0 <= pb <= 2 and 0 <= pc <= 1 and 0 <= pd <= 1
    pre: 0 <= ta <= 2 and 0 <= tb <= 2 and 0 <= tc <= 1 and 0 <= td <= 1
    post: _
    """
    prior = _shape(*_kinds_prior(pa, pb, pc, pd))
    target = _shape(*_kinds(ta, tb, tc, td, cube("ta", None)))
    if DEEP and target.get("a/b/c") == "file":
        target["a/b/c"] = "dir"
        target["a/b/c/f"] = "file"
    same = {k: B(v) for k, v in zip(("a", "a/b", "a/b/c", "d"), (sa, sb, sc, sd)) if prior.get(k) == "file"}
    execb = {k: B(v) for k, v in (("a", xa), ("d", xd)) if target.get(k) == "file" and (k == "d" or cube("unavail", False))}
    unavail = {k: B(v) for k, v in (("a/b", ub), ("d", ud)) if target.get(k) == "file"} if cube("unavail", False) else {}
    if FORM == "lazy" and target.get("a") != "dir":
        return True  # the lazy form needs `a` to be a directory object
    env = make_env()
    try:
        with NoTracing():
            cache = env.local_odb("cache", type=[LINK])
            ws = env.p("ws")
            env.mkdir(ws)
            for k, kind in prior.items():
                if kind == "dir":
                    env.mkdir(ws + "/" + k)
                else:
                    env.write(ws + "/" + k, TGT[k] if same[k] else OTHER[k])
            if cube("dangling", False):  # dangling symlinks left by the user: not part of any target
                env.symlink(ws + "/nowhere", ws + "/lnk")
                if prior.get("a") == "dir":
                    env.symlink("../nowhere2", ws + "/a/lnk2")
            if cube("dirlink", False):  # a symlink to a directory outside the workspace (holding user data) left in the workspace
                env.write(env.p("outside", "precious"), b"user data outside the workspace")
                env.symlink(env.p("outside"), ws + "/lnk")
            for k, kind in target.items():
                if kind == "file" and not unavail.get(k):
                    env.write(cache.oid_to_path(hashlib.md5(TGT[k]).hexdigest()), TGT[k], mode=0o444)
            new = DataIndex()
            new.storage_map.add_cache(ObjectStorage((), cache))
            if FORM == "explicit":
                for k, kind in target.items():
                    key = tuple(k.split("/"))
                    if kind == "dir":
                        new[key] = DataIndexEntry(key=key, meta=Meta(isdir=True), loaded=True)
                    else:
                        new[key] = DataIndexEntry(key=key, meta=Meta(isexec=bool(execb.get(k))),
                                                  hash_info=HashInfo("md5", hashlib.md5(TGT[k]).hexdigest()))
            else:
                t = Tree()
                for k, kind in target.items():
                    if kind == "file" and k.startswith("a/"):
                        t.add(tuple(k.split("/")[1:]), Meta(), HashInfo("md5", hashlib.md5(TGT[k]).hexdigest()))
                t.digest()
                env.write(cache.oid_to_path(t.oid), t.as_bytes(), mode=0o444)
                new[("a",)] = DataIndexEntry(key=("a",), meta=Meta(isdir=True), hash_info=t.hash_info)
                if target.get("d") == "file":
                    new[("d",)] = DataIndexEntry(key=("d",), meta=Meta(isexec=bool(execb.get("d"))),
                                                 hash_info=HashInfo("md5", hashlib.md5(TGT["d"]).hexdigest()))
            before = env.snapshot(ws)
        errors = []

        def onerror(src, dst, exc):
            errors.append(dst)

        try:
            # cube oldhash=False: the prior workspace is indexed without hashes, as index.build.build() does (push/fetch and plain
            # checkouts): every file is then re-created, and directory/file kind changes must still be recognised
            old = _old_index(ws, env.fs, with_hashes=bool(cube("oldhash", True)))
            diff = compare(old, new, delete=DELETE)
            apply(diff, ws, env.fs, onerror=onerror, update_meta=False, storage="cache")
        except HarnessGap:
            raise
        except Exception as e:  # noqa: BLE001
            # observed, outside the property: an executable entry whose source is unavailable is reported through onerror and
            # then _chmod_files raises FileNotFoundError for it; only that case is tolerated
            tolerated = isinstance(e, FileNotFoundError) and any(unavail.get(k) and execb.get(k) for k in target) and errors
            if not tolerated:
                violation("checkout-raised", f"{type(e).__name__}: {e}")
            journal({"prior": prior, "target": target, "tolerated-raise": True}, nontrivial=True)
            return True
        with NoTracing():
            after = env.snapshot(ws)
            tfiles = {k for k, v in target.items() if v == "file"}
            # in the lazy form only directories that contain a file exist in the target
            tdirs = {k for k, v in target.items() if v == "dir"}
            if FORM == "lazy":
                tdirs = {"a"} | {k for k in tdirs if any(f.startswith(k + "/") for f in tfiles)}
            # an unavailable source only matters for files that actually have to be (re)created
            unav = {k for k in tfiles if unavail.get(k) and not (prior.get(k) == "file" and same.get(k) and cube("oldhash", True))}
            err_rel = sorted(p[len(ws) + 1:] for p in errors if p)
            files_after = {k: v for k, v in after.items() if v[0] in ("file", "link") and not k.endswith(".tmp")}
            if DELETE:
                for k in tfiles - unav:
                    if after.get(k, (None,))[0] not in ("file", "link"):
                        violation("target-file-missing", (k, after.get(k, (None,))[0], err_rel))
                    elif env.read(ws + "/" + k) != TGT[k]:
                        violation("target-file-wrong-bytes", k)
                extra = sorted(set(files_after) - tfiles)
                if extra:
                    violation("non-target-file-left", extra)
                if cube("dirlink", False):
                    if not env.exists(env.p("outside", "precious")) or env.read(env.p("outside", "precious")) != b"user data outside the workspace":
                        violation("data-outside-the-workspace-destroyed", "outside/precious")
                    if env.exists(ws + "/lnk"):
                        violation("non-target-path-left", "lnk (symlink to a directory)")
                strays = sorted(k for k in after if k.endswith(".tmp"))
                if strays:
                    violation("stray-temp-file-left", strays)
                for k in tdirs:
                    if after.get(k, (None,))[0] != "dir":
                        violation("target-directory-missing", k)
                for k, v in execb.items():
                    if v and k in tfiles - unav and FORM == "explicit" and not (env.stat(ws + "/" + k)["mode"] & 0o100) and LINK == "copy":
                        violation("executable-entry-not-executable", k)
                if sorted(unav) != err_rel:
                    violation("unavailable-source-not-reported-exactly", (sorted(unav), err_rel))
            else:
                for k, v in before.items():
                    if v[0] == "file" and k not in target and not any(k.startswith(t + "/") or t.startswith(k + "/") for t in target):
                        if k not in after or after[k][1] != v[1]:
                            violation("file-outside-target-removed-without-delete", k)
                for k in unav:
                    if k not in err_rel and prior.get(k) is None and all(prior.get(p) in (None, "dir") for p in _parents(k)):
                        violation("unavailable-source-silently-skipped", k)
        if DELETE and not {k for k in target if target[k] == "file" and unavail.get(k) and not (prior.get(k) == "file" and same.get(k))}:
            # second compare (old side rebuilt with hashes): nothing left to create or delete
            try:
                old2 = _old_index(ws, env.fs)
                d2 = compare(old2, new, delete=True)
            except HarnessGap:
                raise
            except Exception as e:  # noqa: BLE001
                violation("second-compare-raised", f"{type(e).__name__}: {e}")
                return True
            left = {n: sorted("/".join(e.key) for e in getattr(d2, n)) for n in ("files_create", "files_delete", "dirs_create", "dirs_delete")}
            if any(left.values()):
                violation("second-compare-not-empty", left)
        journal({"prior": prior, "target": target, "same": {k: int(v) for k, v in same.items()},
                 "unavail": sorted(k for k, v in unavail.items() if v), "errors": len(errors)},
                nontrivial=bool(prior or target))
        return True
    finally:
        env.close()


def _parents(k):
    parts = k.split("/")
    return ["/".join(parts[:i]) for i in range(1, len(parts))]
