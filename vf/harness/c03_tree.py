"""C03 - a directory's identifier is a canonical, deterministic function of its contents (hashfile/tree.py, build.py)."""
import hashlib
import itertools
import json

from dvc_data.hashfile.hash_info import HashInfo
from dvc_data.hashfile.meta import Meta
from dvc_data.hashfile.tree import Tree

from vf.hlib import B, HarnessGap, NoTracing, cube, journal, pick, violation

# two keys differing only by case; two nested keys differing only in Unicode normalisation form (decomposed / composed e-acute, with a space)
KEYS = [("b",), ("B",), ("a", "e\u0301 b", "c"), ("a", "\u00e9 b", "c")]
N = int(cube("n", 3))
PERMS = list(itertools.permutations(range(N)))
POOL = ["11111111111111111111111111111111", "22222222222222222222222222222222", "d41d8cd98f00b204e9800998ecf8427e"]


def _ref_list(vals, name="md5"):
    # an entry without a hash value carries no hash key
    return sorted((({name: v, "relpath": "/".join(k)} if v else {"relpath": "/".join(k)}) for k, v in vals.items()),
                  key=lambda e: e["relpath"])


def h_order(perm: int, v0: str, v1: str, v2: str, v3: str, s0: int, s1: int, x0: bool, x1: bool, m0: str) -> bool:
    """
    pre: 0 <= perm < len(PERMS) and len(v0) <= 1 and len(v1) <= 1 and len(v2) <= 1 and len(v3) <= 1 and len(m0) <= 1
    post: _
    """
    order = PERMS[pick(perm, 0, len(PERMS) - 1)]
    vals = dict(zip(KEYS[:N], (v0, v1, v2, v3)))
    t = Tree()
    t2 = Tree()
    for i in order:
        k = KEYS[i]
        t.add(k, Meta(size=s0, isexec=x0, md5=m0), HashInfo("md5", vals[k]))
    for k in KEYS[:N]:
        t2.add(k, Meta(size=s1, isexec=x1) if B(x1) else None, HashInfo("md5", vals[k]))
    got = t.as_list()
    ref = _ref_list(vals)
    if got != ref:
        violation("listing-depends-on-insertion-order-or-is-not-sorted", order)
    if t2.as_list() != got:
        violation("listing-depends-on-metadata", None)
    if [e["relpath"] for e in got] != sorted("/".join(k) for k in KEYS[:N]):
        violation("listing-not-sorted-by-relpath", None)
    journal({"order": list(order)}, True)
    return True


def h_digest(perm: int, c0: int, c1: int, c2: int, c3: int, x: bool) -> bool:
    """
    pre: 0 <= perm < len(PERMS) and 0 <= c0 <= 2 and 0 <= c1 <= 2 and 0 <= c2 <= 2 and 0 <= c3 <= 2
    post: _
    """
    order = PERMS[pick(perm, 0, len(PERMS) - 1)]
    sel = [pick(c, 0, 2) for c in (c0, c1, c2, c3)[:N]]
    vals = {k: POOL[s] for k, s in zip(KEYS[:N], sel)}
    t = Tree()
    if cube("query_first", False):  # a prefix query on the still-empty tree must not freeze its view
        if len(t.filter(("a",))) != 0 or t.get_obj(None, ("a",)) is not None and len(t.get_obj(None, ("a",))) != 0:
            violation("empty-tree-not-empty", None)
    for i in order:
        t.add(KEYS[i], Meta(size=3, isexec=B(x)), HashInfo("md5", vals[KEYS[i]]))
    t.digest()
    with NoTracing():
        canon = json.dumps(_ref_list(vals), sort_keys=True).encode()
        if t.oid != hashlib.md5(canon).hexdigest() + ".dir" or t.hash_info.value != t.oid or t.hash_info.name != "md5":
            violation("digest-is-not-md5-of-canonical-listing", (t.oid, list(order)))
        if t.as_bytes() != canon:
            violation("bytes-are-not-the-canonical-listing", None)
        if t.fs.cat_file(t.path) != canon:
            violation("object-bytes-differ-from-digested-bytes", None)
        under_a = {k[1:]: v for k, v in vals.items() if k[0] == "a" and len(k) > 1}
        if under_a:
            sub = t.get_obj(None, ("a",))
            f = t.filter(("a",))
            if sub is None or {k: hi.value for k, _, hi in sub} != under_a:
                violation("sub-tree-lookup-misses-entries", sorted(under_a))
            if {k[1:]: hi.value for k, _, hi in f} != under_a:
                violation("filter-misses-entries", sorted(under_a))
    journal({"order": list(order), "sel": sel}, True)
    return True


def h_inject(p0: bool, p1: bool, p2: bool, q0: bool, q1: bool, q2: bool, v0: str, v1: str, v2: str, w0: str, w1: str, w2: str) -> bool:
    """
    pre: len(v0) <= 1 and len(v1) <= 1 and len(v2) <= 1 and len(w0) <= 1 and len(w1) <= 1 and len(w2) <= 1
    post: _
    """
    a = {k: v for k, p, v in zip(KEYS, (p0, p1, p2), (v0, v1, v2)) if B(p)}
    b = {k: v for k, p, v in zip(KEYS, (q0, q1, q2), (w0, w1, w2)) if B(p)}
    ta, tb = Tree(), Tree()
    for k, v in a.items():
        ta.add(k, None, HashInfo("md5", v))
    for k, v in b.items():
        tb.add(k, None, HashInfo("md5", v))
    same_listing = B(ta.as_list() == tb.as_list())
    same_sets = B(set(a) == set(b)) and all(B(a[k] == b[k]) for k in a)
    if same_listing and not same_sets:
        violation("different-entry-sets-serialise-identically", (sorted(a), sorted(b)))
    if same_sets and not same_listing:
        violation("equal-entry-sets-serialise-differently", None)
    journal({"a": sorted("/".join(k) for k in a), "b": sorted("/".join(k) for k in b), "same": same_listing}, bool(a or b))
    return True


def h_parse(p0: bool, p1: bool, p2: bool, v0: str, v1: str, v2: str) -> bool:
    """
    pre: 1 <= len(v0) <= 2 and 1 <= len(v1) <= 2 and 1 <= len(v2) <= 2
    post: _
    """
    name = cube("hash_name", "md5")
    t = Tree()
    for k, p, v in zip(KEYS, (p0, p1, p2), (v0, v1, v2)):
        if B(p):
            t.add(k, None, HashInfo(name, v))
    lst = t.as_list()
    back = Tree.from_list(lst, hash_name=name if name == "md5-dos2unix" or B(cube("pass_name", False)) else None)
    want = {k: hi for k, _, hi in t}
    got = {k: hi for k, _, hi in back}
    if set(got) != set(want):
        violation("parse-changes-keys", (sorted(want), sorted(got)))
    for k in want:
        if got[k].name != want[k].name or got[k].value != want[k].value:
            violation("parse-changes-hash", (k, got[k].name, want[k].name))
    if back.as_list() != lst:
        violation("serialise-parse-serialise-not-stable", None)
    journal({"n": len(want), "name": name}, bool(want))
    return True


# ---------------------------------------------------------------------------------------------------------
FILES = {"a": b"A", "d/b": b"BB", "d/e/c": b"", "d/e/g": b"GGG"}
SIBLINGS = {"d2/h": b"H", "d.bak": b"K"}  # names that extend the name of directory `d`: they are not inside it


class _PermExecutor:
    """stands in for dvc_objects ThreadPoolExecutor in build._hash_files: imap_unordered yields the results in an
    arbitrary (here: symbolically chosen) order - its documented contract"""

    perm = 0

    def __init__(self, max_workers=None, **kw):
        self.max_workers = max_workers

    def __enter__(self):
        return self

    def __exit__(self, *a):
        return False

    def imap_unordered(self, fn, *iterables):
        res = [fn(*args) for args in zip(*iterables)]
        order = list(itertools.permutations(range(len(res))))[_PermExecutor.perm % max(1, len(list(itertools.permutations(range(len(res))))))]
        for i in order:
            yield res[i]


def h_config(thr: int, jobs: int, perm: int, w0: bool, w1: bool, w2: bool, w3: bool, rev: bool) -> bool:
    """
    pre: 0 <= thr <= 4 and 0 <= jobs <= 3 and 0 <= perm <= 5
    post: _
    """
    import dvc_data.hashfile.build as Bd
    from dvc_data.hashfile.build import _build_files, build
    from dvc_data.hashfile.hash import hash_file
    from vf.env import make_env

    env = make_env()
    real_exec = Bd.ThreadPoolExecutor
    try:
        with NoTracing():
            st = env.state()
            cache = env.local_odb("cache", state=st)
            src = env.p("src")
            for k, v in FILES.items():
                env.write(src + "/" + k, v)
        wmask = cube("warm", None)  # None: first and last file symbolic, the others cold
        warm = [B(w0), False, False, B(w3)] if wmask is None else [bool(v) for v in wmask]
        for (k, _), w in zip(FILES.items(), warm):
            if w:
                hash_file(src + "/" + k, env.fs, "md5", state=st)
        flip = B(rev)
        if env.mode == "model":  # directory listing order is unspecified; on the real disk it is whatever the kernel returns
            env.inner.reverse_listing = flip
        _PermExecutor.perm = int(cube("perm")) if cube("perm", None) is not None else pick(perm, 0, 5)
        Bd.ThreadPoolExecutor = _PermExecutor
        j = pick(jobs, 0, 3) or None
        ref = {k: hashlib.md5(v).hexdigest() for k, v in FILES.items()}
        try:
            # (1) the file-level kernel with a symbolic large-file threshold: files of size > thr go to the unordered pool
            infos = {k: env.fs.info(src + "/d/e/" + k) for k in ("c", "g")}
            infos.update({"../b": env.fs.info(src + "/d/b"), "../../a": env.fs.info(src + "/a")})
            objs = _build_files(src + "/d/e", dict(infos), env.fs, "md5", odb=None, dry_run=True, jobs=j, large_file_threshold=thr)
            got = {k: hi.value for k, (m, hi) in objs.items()}
            want = {"c": ref["d/e/c"], "g": ref["d/e/g"], "../b": ref["d/b"], "../../a": ref["a"]}
            if got != want:
                violation("hashes-depend-on-jobs-threshold-or-completion-order", (thr, j, got))
            # (2) the whole staging path
            staging, meta, obj = build(cache, src, env.fs, "md5", checksum_jobs=j)
        except HarnessGap:
            raise
        except Exception as e:  # noqa: BLE001
            violation("build-raised", f"{type(e).__name__}: {e}")
            return True
        with NoTracing():
            canon = json.dumps(sorted(({"md5": v, "relpath": k} for k, v in ref.items()), key=lambda e: e["relpath"]), sort_keys=True).encode()
            if obj.oid != hashlib.md5(canon).hexdigest() + ".dir":
                violation("tree-id-depends-on-configuration", (obj.oid, warm, j))
        journal({"thr": pick(thr, 0, 4), "jobs": j, "perm": _PermExecutor.perm, "warm": [int(w) for w in warm]}, True)
        return True
    finally:
        Bd.ThreadPoolExecutor = real_exec
        env.close()


def h_subtree(p0: bool, p1: bool, p2: bool, p3: bool) -> bool:
    """
    post: _
    """
    from dvc_data.hashfile.build import build
    from vf.env import make_env

    present = [True, B(p1), B(p2), B(p3)]
    env = make_env()
    try:
        with NoTracing():
            cache = env.local_odb("cache")
            src = env.p("src")
            files = {k: v for (k, v), p in zip(FILES.items(), present) if p}
            files.update(SIBLINGS)
            for k, v in files.items():
                env.write(src + "/" + k, v)
        try:
            _, _, obj = build(cache, src, env.fs, "md5")
            for prefix in (("d",), ("d", "e"), ("a",), ("d", "b"), ("nope",)):
                sub = obj.get_obj(cache, prefix)
                rel = "/".join(prefix)
                inside = {k[len(rel) + 1:]: v for k, v in files.items() if k.startswith(rel + "/")}
                if rel in files:
                    if sub is None or sub.oid != hashlib.md5(files[rel]).hexdigest():
                        violation("sub-object-of-file-prefix-wrong", rel)
                elif inside:
                    _, _, direct = build(cache, src + "/" + rel, env.fs, "md5")
                    if sub is None or sub.oid != direct.oid:
                        violation("sub-tree-differs-from-directly-built-tree", (rel, getattr(sub, "oid", None), direct.oid))
                    with NoTracing():
                        canon = json.dumps(sorted(({"md5": hashlib.md5(v).hexdigest(), "relpath": k} for k, v in inside.items()),
                                                  key=lambda e: e["relpath"]), sort_keys=True).encode()
                        if sub.oid != hashlib.md5(canon).hexdigest() + ".dir":
                            violation("sub-tree-id-not-canonical", rel)
                elif sub is not None and len(sub) > 0:
                    violation("sub-tree-of-absent-prefix-not-empty", rel)
        except HarnessGap:
            raise
        except Exception as e:  # noqa: BLE001
            violation("subtree-raised", f"{type(e).__name__}: {e}")
            return True
        journal({"present": [int(p) for p in present]}, True)
        return True
    finally:
        env.close()
