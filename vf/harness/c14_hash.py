"""C14 (Engine A) - hashing stream pass-through, chunking independence, dos2unix, legacy text-normalising stream,
algorithm selection (hashfile/hash.py)."""
import hashlib

import dvc_data.hashfile.hash as H

from vf.hlib import B, HarnessGap, cube, install_quiet, journal, pick, violation


def definition(block):
    """same statement as c14_sniff.definition, written with comparisons only (no hashing of symbolic bytes)"""
    if len(block) == 0:
        return True
    n = 0
    for b in block:
        if b == 0:
            return False
        if not (32 <= b < 127 or b == 10 or b == 13 or b == 9 or b == 12 or b == 8):
            n += 1
    return 10 * n <= 3 * len(block)

install_quiet()
MAXLEN = int(cube("maxlen", 5))


class RecHasher:
    """records what is fed to update(); hashlib's streaming contract update(a);update(b) == update(a+b) is trusted,
    so 'digest == reference digest of the content' <=> 'concatenation of the chunks fed == content'"""

    name = "md5"

    def __init__(self):
        self.buf = b""
        self.calls = 0

    def update(self, b):
        self.buf = self.buf + b
        self.calls += 1

    def hexdigest(self):
        return "recorded"


class ShortReadFile:
    """a file object allowed to return fewer bytes than asked (but at least one while data remains)"""

    def __init__(self, data, caps):
        self.data, self.pos, self.caps, self.i = data, 0, caps, 0

    def read(self, n=-1):
        if n is None or n < 0:
            n = len(self.data) - self.pos
        if self.i < len(self.caps):
            n = min(n, self.caps[self.i])
            self.i += 1
        chunk = self.data[self.pos:self.pos + n]
        self.pos += len(chunk)
        return chunk

    def tell(self):
        return self.pos


def h_stream(data: bytes, chunk: int, c0: int, c1: int, c2: int, legacy: bool) -> bool:
    """
    pre: len(data) <= MAXLEN
    pre: 1 <= chunk <= MAXLEN + 1 and 1 <= c0 <= MAXLEN + 1 and 1 <= c1 <= MAXLEN + 1 and 1 <= c2 <= MAXLEN + 1
    post: _
    """
    real = H.get_hasher
    H.get_hasher = lambda name: RecHasher()
    try:
        f = ShortReadFile(data, [c0, c1, c2])
        s = H.HashStreamFile(f, "MD5" if B(legacy) else "md5")
        out = b""
        n = 0
        while True:
            d = s.read(chunk)
            if not d:
                break
            out = out + d
            n += 1
            if n > 3 * (MAXLEN + 2):
                violation("stream-does-not-terminate", None)
                break
        if out != data:
            violation("stream-altered-the-bytes-passed-through", None)
        if s.hasher.buf != data:
            violation("hashed-bytes-differ-from-content", None)
        if s.total_read != len(data):
            violation("byte-count-wrong", None)
        # the chunked driver
        f2 = ShortReadFile(data, [c1, c0, c2])
        H.fobj_md5(f2, chunk_size=chunk, name="md5")
    finally:
        H.get_hasher = real
    journal({"reads": n}, True)
    return True


def h_driver(data: bytes, chunk: int, c0: int, c1: int) -> bool:
    """
    pre: len(data) <= MAXLEN and 1 <= chunk <= MAXLEN + 1 and 1 <= c0 <= MAXLEN + 1 and 1 <= c1 <= MAXLEN + 1
    post: _
    """
    rec = []
    real = H.get_hasher

    def mk(name):
        r = RecHasher()
        rec.append(r)
        return r

    H.get_hasher = mk
    try:
        got = H.fobj_md5(ShortReadFile(data, [c0, c1]), chunk_size=chunk, name="md5")
    finally:
        H.get_hasher = real
    if got != "recorded" or len(rec) != 1 or rec[0].buf != data:
        violation("chunked-driver-hashes-something-else-than-the-content", None)
    journal({"calls": rec[0].calls}, True)
    return True


def h_d2u(data: bytes) -> bool:
    """
    pre: len(data) <= MAXLEN
    post: _
    """
    r = H.dos2unix(data)
    ref = b""
    i = 0
    while i < len(data):
        if data[i] == 13 and i + 1 < len(data) and data[i + 1] == 10:
            ref = ref + b"\n"
            i += 2
        else:
            ref = ref + data[i:i + 1]
            i += 1
    if r != ref:
        violation("dos2unix-differs-from-reference", None)
    journal({"len": pick(len(data), 0, MAXLEN)}, True)
    return True


def _has(data, byte):
    for b in data:
        if b == byte:
            return True
    return False


WINDOW = int(cube("window", 4))  # DEFAULT_CHUNK_SIZE scaled down so that the sniffing-window edge is inside the bound


def h_legacy(data: bytes, extra: int) -> bool:
    """
    pre: len(data) <= MAXLEN and 0 <= extra <= 2
    post: _
    """
    real_hasher, real_win, real_sniff = H.get_hasher, H.DEFAULT_CHUNK_SIZE, H.istextblock
    H.get_hasher = lambda name: RecHasher()
    H.DEFAULT_CHUNK_SIZE = WINDOW
    H.istextblock = definition  # justified by the Engine-B equivalence (c14_sniff) for every length in the bound
    try:
        if cube("len", None) is not None and len(data) != int(cube("len")):
            return True
        n = WINDOW + (int(cube("extra")) if cube("extra", None) is not None else pick(extra, 0, 2))
        s = H.get_hash_stream(ShortReadFile(data, []), name="md5-dos2unix")
        if type(s).__name__ != "Dos2UnixHashStreamFile":
            violation("legacy-name-does-not-select-the-normalising-stream", type(s).__name__)
        chunk = s.read(n)
        raw = data[:n]
        if chunk != raw:
            violation("legacy-stream-altered-the-bytes-passed-through", None)
        window = raw[:WINDOW]
        is_text = definition(window) if raw else False
        want = H.dos2unix(raw) if is_text else raw
        if s.hasher.buf != want:
            violation("legacy-stream-hashed-unexpected-bytes", (is_text,))
        if not is_text and s.hasher.buf != raw:
            violation("binary-content-was-normalised", None)
        # CRLF and LF variants of a text that fits in one read hash identically
        if len(data) <= n and not _has(data, 13) and definition(data[:WINDOW]) and len(data) > 0:
            crlf = data.replace(b"\n", b"\r\n")
            if len(crlf) <= n and definition(crlf[:WINDOW]):
                s2 = H.get_hash_stream(ShortReadFile(crlf, []), name="md5-dos2unix")
                s2.read(n)
                if s2.hasher.buf != s.hasher.buf or s.hasher.buf != data:
                    violation("crlf-and-lf-variants-hash-differently", None)
    except AssertionError as e:
        violation("legacy-stream-assertion", str(e))
    finally:
        H.get_hasher, H.DEFAULT_CHUNK_SIZE, H.istextblock = real_hasher, real_win, real_sniff
    journal({"n": n}, True)
    return True


ALGS = sorted(a for a in hashlib.algorithms_available if not a.startswith("shake")) + ["md5-dos2unix", "blake3"]


def h_alg(i: int, upper: bool) -> bool:
    """
    pre: 0 <= i < len(ALGS)
    post: _
    """
    name = ALGS[pick(i, 0, len(ALGS) - 1)]
    probe = b"The quick brown fox\r\n\x00\xff"
    try:
        import io

        s = H.HashStreamFile(io.BytesIO(probe), name.upper() if B(upper) else name)
        while s.read(7):
            pass
        got = s.hash_value
    except ModuleNotFoundError:
        journal({"name": name, "skipped": "module not installed"}, True)
        return True
    except HarnessGap:
        raise
    except Exception as e:  # noqa: BLE001
        violation("supported-algorithm-rejected", (name, f"{type(e).__name__}: {e}"))
        return True
    if name == "blake3":
        from blake3 import blake3

        want = blake3(probe).hexdigest()
    else:
        want = hashlib.new("md5" if name == "md5-dos2unix" else name, probe).hexdigest()
    if got != want:
        violation("digest-differs-from-reference", name)
    journal({"name": name}, True)
    return True
