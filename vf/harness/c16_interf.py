"""C16 - concurrent writers, decided as a rely/guarantee step: one writer's real code (stage + transfer into a shared
store with a shared hash-state table) runs while, before the operation and before any of its filesystem mutations, up to two
symbolic *environment steps* fire.  An environment step is anything another correct writer is guaranteed to do atomically:
place a complete, correctly named object of the workload (already protected or not yet), create a fan-out directory, or upsert
a correct state row.  (That each writer's own mutation sequence consists only of such steps is what C01/C15 establish.)

cube: cls ("local"|"base"), nsteps (1|2), a1/a2 (optional fixed action indexes), upload (bool)
"""
import hashlib
import json

from dvc_data.hashfile.build import build
from dvc_data.hashfile.hash_info import HashInfo
from dvc_data.hashfile.state import _checksum
from dvc_data.hashfile.transfer import transfer
from dvc_data.hashfile.tree import Tree

from vf.env import ModelEnv, make_env
from vf.hlib import B, HarnessGap, NoTracing, cube, journal, pick, violation

CLS = cube("cls", "local")
NSTEPS = int(cube("nsteps", 1))
UPLOAD = bool(cube("upload", False))
FILES = {"a": b"shared-content", "d/b": b"", "d/c": b"shared-content"}


def _workload():
    objs = {hashlib.md5(v).hexdigest(): v for v in FILES.values()}
    t = Tree()
    for k, v in FILES.items():
        t.add(tuple(k.split("/")), None, HashInfo("md5", hashlib.md5(v).hexdigest()))
    t.digest()
    objs[t.oid] = t.as_bytes()
    return objs, t.oid


WORK, TREE_OID = _workload()
OIDS = sorted(WORK)
# environment actions: (kind, object index)
ACTIONS = [("place-protected", i) for i in range(len(OIDS))] + [("place-unprotected", i) for i in range(len(OIDS))] + \
          [("mkdir", i) for i in range(len(OIDS))] + [("state-row", i) for i in range(len(OIDS))] + \
          [("probe-create", i) for i in range(len(OIDS))] + [("probe-finish", i) for i in range(len(OIDS))] + \
          [("probe-wipe", i) for i in range(len(OIDS))] + [("probe-gone", i) for i in range(len(OIDS))]
# probe-wipe: the other writer decided to add object i before this writer placed it; its in-place probe (O_TRUNC, then unlink) therefore
# truncates and removes whatever is under the final name at that moment - the object is *missing* until its probe-finish
# probe-create / probe-finish: the two halves of another writer's add of object i as dvc_objects performs it - an in-place reflink
# probe leaves an *empty* file under the final name for a moment, then removes it and places the complete object by rename


THREAD_FAILS = []  # failures of the second writer thread (reported after the run: the code under analysis must not swallow them)


def _apply(env, cache, st, action):
    kind, i = action
    oid = OIDS[i]
    path = cache.oid_to_path(oid)
    inner = env.inner
    if kind == "mkdir":
        inner.makedirs(path.rsplit("/", 1)[0], exist_ok=True)
    elif kind.startswith("place"):
        inner.makedirs(path.rsplit("/", 1)[0], exist_ok=True)
        if not inner.lexists(path):  # an atomic rename of a complete object; an existing identical object is left alone
            inner.write(path, WORK[oid])
            inner._p_chmod(path, 0o444 if (kind == "place-protected" and CLS == "local") else 0o644)
    elif kind == "probe-create":
        inner.makedirs(path.rsplit("/", 1)[0], exist_ok=True)
        if not inner.lexists(path):
            inner.write(path, b"x")  # never empty-equal to a real empty object: the probe leaves size 0
            inner.files[inner._resolve(path)].data = b""
    elif kind == "probe-wipe":
        if inner.lexists(path) and not inner.isdir(path):
            inner._p_unlink(path)
    elif kind == "probe-gone":
        # the other writer's probe cleans up its own transient (empty) file; it never removes a complete object here
        if inner.lexists(path) and not inner.isdir(path) and inner.read(path) == b"" and WORK[oid] != b"":
            inner._p_unlink(path)
    elif kind == "probe-finish":
        inner.makedirs(path.rsplit("/", 1)[0], exist_ok=True)
        if inner.lexists(path) and inner.read(path) == b"" and WORK[oid] != b"":
            inner._p_unlink(path)
        if not inner.lexists(path):
            inner.write(path, WORK[oid])
            inner._p_chmod(path, 0o444 if CLS == "local" else 0o644)
    elif kind == "state-row" and cube("threads", False):
        # the other writer is a *thread* of this process sharing the State object (as hashing pools do): it looks the object up and
        # records it through the real State code on its own thread
        if inner.lexists(path) and not inner.isdir(path):
            inner.actor = 1
            try:
                st.get(path, env.fs)
                if inner.read(path) == WORK[oid]:
                    st.save(path, env.fs, HashInfo("md5", oid))
            except HarnessGap:
                raise
            except Exception as e:  # noqa: BLE001
                THREAD_FAILS.append((action, f"{type(e).__name__}: {e}"))
            finally:
                inner.actor = 0
    elif kind == "state-row":
        if inner.lexists(path):
            info = env.fs.info(path)
            st.hashes.table[path] = json.dumps({"version": 1, "checksum": _checksum(info), "size": info["size"], "hash_info": {"md5": oid}})


def _run(env, plan):
    """plan: list of (event index or -1, action); returns (exception or None, cache, staged obj)"""
    for k, v in FILES.items():
        env.write(env.p("src") + "/" + k, v)
    st = env.state()
    cache = env.local_odb("cache", state=st) if CLS == "local" else env.base_odb("cache", state=st)
    pending = sorted(plan, key=lambda p: p[0])
    count = [0]
    fired = []

    def hook(kind, args):
        while pending and pending[0][0] <= count[0]:
            _, action = pending.pop(0)
            _apply(env, cache, st, action)
            fired.append(action)
        count[0] += 1

    while pending and pending[0][0] < 0:
        _apply(env, cache, st, pending.pop(0)[1])
    base = len(env.inner.log)
    env.inner.hook_on_reads = bool(cube("reads", False))  # interference may also strike between two *queries* of this writer
    env.inner.pre_mutation = hook
    try:
        staging, meta, obj = build(cache, env.p("src"), env.fs, "md5", upload=UPLOAD)
        transfer(staging, cache, {obj.hash_info}, shallow=False)
    finally:
        env.inner.pre_mutation = None
        env.inner.hook_on_reads = False
    # the other writers run to completion too: steps scheduled after this writer's last mutation happen now
    while pending:
        _apply(env, cache, st, pending.pop(0)[1])
    return cache, obj, count[0], st


def reference():
    env = ModelEnv()
    try:
        cache, obj, n, st = _run(env, [])
        return n, {o: d for o, d in env.odb_objects(cache).items() if ".tmp" not in o}
    finally:
        env.close()


def h_interfere(e1: int, a1: int, e2: int, a2: int) -> bool:
    """
    pre: -1 <= e1 <= 60 and -1 <= e2 <= 60 and 0 <= a1 <= 23 and 0 <= a2 <= 23
    post: _
    """
    with NoTracing():
        n, ref = reference()
    plan = []
    lo1 = min(int(cube("e_lo", -1)), n)  # a cube whose range lies beyond this run's last position explores that last position
    hi1 = max(lo1, min(int(cube("e_hi", n)), n))
    k1 = pick(e1, lo1, hi1)
    if cube("probe", None) is not None:  # paired: the other writer's probe opens at k1 and its add completes at k2 >= k1
        i = int(cube("probe"))
        first = "probe-wipe" if cube("wipe", False) else "probe-create"
        k2 = pick(e2, k1, max(k1, min(n, k1 + int(cube("span", 99)))))  # never before k1: the probe opens before it completes
        if cube("second", "finish") == "wipe":
            # the probe's transient file appears at k1 and is cleaned up at k2; the other writer's copy lands after this writer is done
            plan = [(k1, (first, i)), (k2, ("probe-gone", i)), (n + 1, ("probe-finish", i))]
        else:
            plan = [(k1, (first, i)), (k2, ("probe-finish", i))]
    else:
        act1 = int(cube("a1")) if cube("a1", None) is not None else pick(a1, 0, len(ACTIONS) - 1)
        plan.append((k1, ACTIONS[act1]))
        if NSTEPS >= 2:
            k2 = pick(e2, k1, max(k1, n))
            act2 = int(cube("a2")) if cube("a2", None) is not None else pick(a2, 0, len(ACTIONS) - 1)
            plan.append((k2, ACTIONS[act2]))
    env = make_env()
    try:
        del THREAD_FAILS[:]
        try:
            cache, obj, cnt, st = _run(env, list(plan))
        except HarnessGap:
            raise
        except Exception as e:  # noqa: BLE001
            if THREAD_FAILS:
                violation("second-writer-thread-failed", (plan, THREAD_FAILS[0]))
            violation("writer-failed-under-interference", (plan, f"{type(e).__name__}: {e}"))
            return True
        if THREAD_FAILS:
            violation("second-writer-thread-failed", (plan, THREAD_FAILS[0]))
        with NoTracing():
            have = {o: d for o, d in env.odb_objects(cache).items() if ".tmp" not in o}
            for oid, data in WORK.items():
                if oid not in have:
                    violation("requested-object-missing", (plan, oid))
                elif have[oid] != data:
                    violation("object-incomplete-or-wrong", (plan, oid))
            for oid, data in have.items():
                if hashlib.md5(data).hexdigest() != oid.split(".")[0]:
                    violation("object-not-named-by-its-digest", (plan, oid))
            if obj.oid != TREE_OID:
                violation("directory-object-does-not-list-what-was-staged", (plan, obj.oid))
            if set(have) != set(ref):
                violation("outcome-depends-on-interleaving", (plan, sorted(set(have) ^ set(ref))))
            if CLS == "local":
                modes = env.odb_modes(cache)
                bad = [o for o in WORK if modes.get(o) != 0o444]
                if bad:
                    violation("object-left-unprotected", (plan, bad))
            # state rows that are valid for a cache path must carry the right hash
            for path, raw in st.hashes.table.items():
                if env.exists(path):
                    entry = json.loads(raw)
                    info = env.fs.info(path)
                    if info["type"] == "file" and entry["checksum"] == _checksum(info):
                        (name, value), = entry["hash_info"].items()
                        if name == "md5" and hashlib.md5(env.read(path)).hexdigest() != value.split(".")[0]:
                            violation("state-row-vouches-for-wrong-bytes", (plan, path))
        journal({"plan": [[k, list(a)] for k, a in plan], "n": n}, nontrivial=True)
        return True
    finally:
        env.close()
