"""C04 kernel - the real transfer._do_transfer/_add against minimal model stores, everything symbolic: the listing
matrix (which directory lists which file), which directories are requested, what the destination already holds, and the
failure bit of every upload.  Closed requests only (each requested directory together with its files)."""
import dvc_data.hashfile.transfer as T
from dvc_data.hashfile.hash_info import HashInfo
from dvc_data.hashfile.tree import Tree

from vf.hlib import B, cube, install_quiet, journal, violation

install_quiet()

FILES = ["f0", "f1", "f2"]
DIRS = ["d0.dir", "d1.dir"]


class Obj:
    def __init__(self, oid):
        self.oid = oid
        self.fs = "FS"
        self.path = "/src/" + oid


class Src:
    hash_name = "md5"

    def get(self, oid):
        return Obj(oid)


class Dest:
    hash_name = "md5"

    def __init__(self, present, fails, listing):
        self.present = set(present)
        self.fails = fails
        self.listing = listing
        self.decided = {}
        self.uploads = []
        self.bad = []

    def get(self, oid):
        return Obj(oid)

    def check_closed(self):
        for d in DIRS:
            if d in self.present:
                for f in self.listing[d]:
                    if f not in self.present:
                        self.bad.append((d, f))

    def add(self, paths, fs, oids, on_error=None, **kw):
        for oid in oids:
            self.uploads.append(oid)
            if oid not in self.decided:
                self.decided[oid] = B(self.fails[oid])
            if self.decided[oid]:
                if "kind" not in self.decided:
                    self.decided["kind"] = B(self.ek)
                on_error(oid, FileNotFoundError(2, "injected: source vanished") if self.decided["kind"] else OSError("injected"))
            else:
                self.present.add(oid)
            self.check_closed()


def h_kernel(l00: bool, l01: bool, l02: bool, l10: bool, l11: bool, l12: bool, rd0: bool, rd1: bool,
             pf0: bool, pf1: bool, pf2: bool, m0: bool, m1: bool, m2: bool,
             xf0: bool, xf1: bool, xf2: bool, xd0: bool, xd1: bool, ek: bool = False) -> bool:
    """
    post: _
    """
    cl = cube("listing", None)
    if cl is not None:
        listing = {"d0.dir": [FILES[i] for i in cl[0]], "d1.dir": [FILES[i] for i in cl[1]]}
    else:
        listing = {"d0.dir": [f for f, b in zip(FILES, (l00, l01, l02)) if B(b)],
                   "d1.dir": [f for f, b in zip(FILES, (l10, l11, l12)) if B(b)]}
    creq = cube("req", None)
    if creq is not None:
        rd0, rd1 = bool(creq[0]), bool(creq[1])
    trees = {}
    for d in DIRS:
        t = Tree()
        for f in listing[d]:
            t.add((f,), None, HashInfo("md5", f))
        t.hash_info = HashInfo("md5", d)
        t.oid = d
        trees[d] = t
    real_find = T.find_tree_by_obj_id
    T.find_tree_by_obj_id = lambda odbs, hi: trees[hi.value]
    try:
        present = [f for f, b in zip(FILES, (pf0, pf1, pf2)) if B(b)]
        req_dirs = [d for d, b in zip(DIRS, (rd0, rd1)) if B(b)]
        # files missing on both sides (status.missing): not in dest and not in source
        missing = [f for f, b in zip(FILES, (m0, m1, m2)) if f not in present and B(b)]
        new = set()
        for d in req_dirs:
            new.add(HashInfo("md5", d))
            for f in listing[d]:
                if f not in present and f not in missing:
                    new.add(HashInfo("md5", f))
        fails = dict(zip(FILES + DIRS, (xf0, xf1, xf2, xd0, xd1)))
        dest = Dest(present, fails, listing)
        dest.ek = ek
        try:
            failed = T._do_transfer(Src(), dest, new, {HashInfo("md5", f) for f in missing})
        except Exception as e:  # noqa: BLE001
            violation("do-transfer-raised", f"{type(e).__name__}: {e}")
            return True
        dest.check_closed()
        if dest.bad:
            violation("dir-in-dest-without-listed-file", dest.bad[0])
        for d in req_dirs:
            undelivered = [f for f in listing[d] if f not in dest.present]
            if undelivered:
                if d in dest.present:
                    violation("dir-in-dest-without-listed-file", (d, undelivered))
                if HashInfo("md5", d) not in failed:
                    violation("dir-withheld-but-not-reported-failed", (d, undelivered))
        for hi in new:
            if hi not in failed and hi.value not in dest.present:
                violation("reported-transferred-but-absent", hi.value)
            if hi in failed and hi.value in dest.present and not hi.isdir:
                violation("reported-failed-but-present", hi.value)
        if len(dest.uploads) != len(set(dest.uploads)):
            violation("object-uploaded-twice", dest.uploads)
    finally:
        T.find_tree_by_obj_id = real_find
    journal({"listing": listing, "req": req_dirs, "present": present, "missing": missing,
             "fail": sorted(k for k, v in dest.decided.items() if v and k != "kind"), "enoent": bool(dest.decided.get("kind"))}, nontrivial=bool(dest.uploads))
    return True
