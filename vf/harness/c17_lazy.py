"""C17 - lazy directory loading, filtered views and the read-only fs adaptor are transparent
(index/index.py, index/view.py, fs.py, hashfile/tree.py).

cube: lazy ("d" | "d/s": which directory is held as a single unloaded entry pointing at a directory object),
      op1 (first access operation), shape (optional presence mask of the 4 files)
symbolic: the access sequence (operation kinds after the first, and every key), the view's filter prefix.
"""
import hashlib

from dvc_data.fs import DataFileSystem
from dvc_data.hashfile.hash_info import HashInfo
from dvc_data.hashfile.meta import Meta
from dvc_data.hashfile.tree import Tree
from dvc_data.index import DataIndex, DataIndexEntry, ObjectStorage, view
from dvc_data.index.diff import diff

from vf.env import make_env
from vf.hlib import B, HarnessGap, NoTracing, cube, journal, pick, violation

FILES = {"f": b"F", "d/a": b"A", "d/s/b": b"", "d/u/v/w": b"A"}  # d/u holds no file of its own: an intermediate implicit directory
LAZY = cube("lazy", "d")
KEYS = [(), ("d",), ("d", "a"), ("d", "s"), ("d", "s", "b"), ("d", "u"), ("d", "u", "v"), ("d", "x")]
NK = len(KEYS) - 1
OPS2 = cube("ops2", [0, 1, 2, 3, 4, 5, 6])  # operation kinds allowed after the first one
NOPS = int(cube("nops", 2))


def _md5(b):
    return hashlib.md5(b).hexdigest()


def _build(env, files):
    """(lazy index, expanded reference index, cache)"""
    cache = env.local_odb("cache")
    remote = env.remote_odb("rem") if cube("where", "cache") == "remote" else None
    holder = remote or cache  # cube where=remote: a cache is configured but empty, every object lives in the remote
    for v in files.values():
        env.write(holder.oid_to_path(_md5(v)), v, fs=holder.fs, mode=0o444 if holder is cache else None)

    def file_entry(k):
        key = tuple(k.split("/"))
        return DataIndexEntry(key=key, meta=Meta(md5=_md5(files[k])), hash_info=HashInfo("md5", _md5(files[k])))

    lazy, full = DataIndex(), DataIndex()
    if cube("backend", "memory") == "sqlite":  # the lazily loaded index lives in an (in-memory) SQLite database, the reference stays a plain trie
        from dvc_data.index.index import DataIndexTrie

        _untraced_sql_layer()
        lazy._trie = DataIndexTrie()
    elif cube("backend", "memory") == "sqlite-named":
        # a named in-memory database that survives close() while `KEEP` holds a connection: the index can be committed, closed and re-opened
        import sqlite3
        import uuid

        _untraced_sql_layer()
        uri = f"file:vf17_{uuid.uuid4().hex}?mode=memory&cache=shared"
        KEEP[:] = [sqlite3.connect(uri), uri]
        lazy = DataIndex.open(uri)
    for idx in (lazy, full):
        idx.storage_map.add_cache(ObjectStorage((), cache))
        if remote is not None:
            idx.storage_map.add_remote(ObjectStorage((), remote))
    root = tuple(LAZY.split("/"))
    pre = LAZY + "/"
    t = Tree()
    for k, v in files.items():
        if k.startswith(pre):
            t.add(tuple(k[len(pre):].split("/")), None, HashInfo("md5", _md5(v)))
    t.digest()
    env.write(holder.oid_to_path(t.oid), t.as_bytes(), fs=holder.fs, mode=0o444 if holder is cache else None)
    dirs = set()
    for k in files:
        parts = k.split("/")
        for i in range(1, len(parts)):
            dirs.add(tuple(parts[:i]))
    dirs.add(root)
    for dk in sorted(dirs):
        if dk == root:
            lazy[dk] = DataIndexEntry(key=dk, meta=Meta(isdir=True), hash_info=HashInfo("md5", t.oid))
            full[dk] = DataIndexEntry(key=dk, meta=Meta(isdir=True), hash_info=HashInfo("md5", t.oid), loaded=True)
        else:
            e = DataIndexEntry(key=dk, meta=Meta(isdir=True), loaded=True)
            full[dk] = e
            if not (len(dk) > len(root) and dk[: len(root)] == root):
                lazy[dk] = DataIndexEntry(key=dk, meta=Meta(isdir=True), loaded=True)
    for k in files:
        full[tuple(k.split("/"))] = file_entry(k)
        if not k.startswith(pre):
            lazy[tuple(k.split("/"))] = file_entry(k)
    return lazy, full, cache


KEEP = []


def h_reopen(o1: int, k1: int, dk: int, p1: bool, p2: bool, p3: bool) -> bool:
    """
    pre: 0 <= o1 <= 6 and 0 <= k1 <= 7 and 0 <= dk <= 3
    post: _
    """
    # SQLite-backed index: an access loads the directory, one entry below it is then removed, the index is committed, closed and
    # re-opened: it must still agree with the explicit index that had the same entry removed (loading is idempotent across reopen)
    files = _shape(p1, p2, p3)
    if files is None:
        return True
    env = make_env()
    try:
        with NoTracing():
            lazy, full, cache = _build(env, files)
            afs_lazy = DataFileSystem(index=lazy, skip_instance_cache=True)
            afs_full = DataFileSystem(index=full, skip_instance_cache=True)
            lazy.commit()
        op = pick(o1, 0, 6)
        key = KEYS[pick(k1, 0, NK)]
        a = _observe(lazy, afs_lazy, op, key)
        b = _observe(full, afs_full, op, key)
        if a != b:
            violation("lazy-index-observation-differs-from-expanded", ([[op, "/".join(key)]], a, b))
        below = sorted(tuple(k.split("/")) for k in files if k.startswith(LAZY + "/"))
        victim = below[pick(dk, 0, len(below) - 1)]
        try:
            # whatever the access left unloaded is loaded before the edit (an edit below an unloaded directory is out of scope); a full
            # iteration, not load(): load() iterates shallowly and does not reach an unloaded directory nested below an explicit one
            for _ in lazy.iteritems():
                pass
            del lazy[victim]
            del full[victim]
            lazy.commit()
            lazy.close()
            again = DataIndex.open(KEEP[1])
            again.storage_map = lazy.storage_map
            got = sorted((k, _proj(e)) for k, e in again.iteritems())
        except HarnessGap:
            raise
        except Exception as e:  # noqa: BLE001
            violation("reopen-raised", f"{type(e).__name__}: {e}")
            return True
        want = sorted((k, _proj(e)) for k, e in full.iteritems())
        if got != want:
            violation("reopened-index-differs-from-expanded", ("/".join(victim), [k for k, _ in got], [k for k, _ in want]))
        with NoTracing():
            again.close()
        journal({"op": op, "key": "/".join(key), "victim": "/".join(victim), "files": sorted(files)}, nontrivial=True)
        return True
    finally:
        with NoTracing():
            if KEEP:
                KEEP[0].close()
                del KEEP[:]
        env.close()


def _untraced_sql_layer():
    """sqltrie's SQLite layer (SQL text + the sqlite3 C extension) runs on concrete keys and bytes only: it executes outside tracing;
    the JSON (de)serialising trie layers above it (sqltrie.JSONTrie, DataIndexTrie) stay traced"""
    import functools
    import inspect

    from sqltrie.sqlite.sqlite import SQLiteTrie

    if getattr(SQLiteTrie, "_vf_untraced", False):
        return
    SQLiteTrie._vf_untraced = True
    for name, fn in list(vars(SQLiteTrie).items()):
        if name.startswith("__") and name not in ("__getitem__", "__setitem__", "__delitem__", "__len__", "__iter__", "__contains__"):
            continue
        if isinstance(fn, (classmethod, staticmethod, property)) or not inspect.isfunction(fn):
            continue
        def wrap(fn=fn):
            @functools.wraps(fn)
            def w(*a, **k):
                with NoTracing():
                    r = fn(*a, **k)
                if inspect.isgenerator(r):
                    return _lazy_untraced(r)
                return r
            return w
        setattr(SQLiteTrie, name, wrap())


def _lazy_untraced(gen):
    """drive a generator of the SQL layer one item at a time, each step outside tracing (laziness is behaviour: rows fetched after an
    insertion made during the iteration are seen, exactly as without the wrapper)"""
    while True:
        with NoTracing():
            try:
                item = next(gen)
            except StopIteration:
                return
        yield item


def _proj(e):
    if e is None:
        return None
    return (bool(e.meta and e.meta.isdir), e.hash_info.value if e.hash_info else None)


def _observe(idx, afs, op, key):
    path = "/" + "/".join(key)
    try:
        if op == 0:
            return ("get", _proj(idx[key]))
        if op == 1:
            return ("iter", sorted((k, _proj(e)) for k, e in idx.iteritems(prefix=key)))
        if op == 2:
            return ("ls", sorted(idx.ls(key, detail=False)))
        if op == 3:
            i = idx.info(key)
            return ("info", i["type"], i.get("md5"), _proj(i.get("entry")))
        if op == 4:
            return ("fs.ls", sorted(afs.ls(path, detail=False)))
        if op == 5:
            i = afs.info(path)
            return ("fs.info", i["type"], i.get("md5"))
        if op == 6:
            with afs.open(path, "rb") as f:
                return ("fs.open", f.read())
    except HarnessGap:
        raise
    except Exception as e:  # noqa: BLE001
        return ("raised", "KeyError" if isinstance(e, KeyError) else type(e).__name__)
    raise HarnessGap(op)


def _shape(p1, p2, p3):
    mask = cube("shape", None)
    present = [True, True, True, True] if mask is None and not cube("symshape", False) else None
    if present is None:
        present = [bool(v) for v in mask] if mask is not None else [True, B(p1), B(p2), B(p3)]
    files = {k: v for (k, v), p in zip(FILES.items(), present) if p}
    if not any(k.startswith(LAZY + "/") for k in files):
        return None
    return files


def h_access(o2: int, o3: int, k1: int, k2: int, k3: int, p1: bool, p2: bool, p3: bool) -> bool:
    """
    pre: 0 <= o2 <= 6 and 0 <= o3 <= 6 and 0 <= k1 <= 7 and 0 <= k2 <= 7 and 0 <= k3 <= 7
    post: _
    """
    files = _shape(p1, p2, p3)
    if files is None:
        return True
    env = make_env()
    try:
        with NoTracing():
            lazy, full, cache = _build(env, files)
            afs_lazy = DataFileSystem(index=lazy, skip_instance_cache=True)
            afs_full = DataFileSystem(index=full, skip_instance_cache=True)
        ops = [int(cube("op1", 0))] + [OPS2[pick(o, 0, len(OPS2) - 1)] for o in (o2, o3)[: NOPS - 1]]
        keys = [KEYS[pick(k, 0, NK)] for k in (k1, k2, k3)[:NOPS]]
        trace = []
        for op, key in zip(ops, keys):
            a = _observe(lazy, afs_lazy, op, key)
            b = _observe(full, afs_full, op, key)
            trace.append([op, "/".join(key)])
            if a != b:
                violation("lazy-index-observation-differs-from-expanded", (trace, a, b))
            if op == 6 and a[0] != "fs.open" and "/".join(key) in files:
                # every object is available in some configured storage: opening an indexed file must succeed
                violation("adaptor-open-failed-for-available-file", ("/".join(key), a))
            if op == 6 and a[0] == "fs.open":
                with NoTracing():
                    if a[1] != files.get("/".join(key)):
                        violation("adaptor-bytes-differ-from-storage", "/".join(key))
        # hash-level diff between the lazy and the expanded index shows no change
        try:
            changes = [c for c in diff(lazy, full, hash_only=True)]
        except HarnessGap:
            raise
        except Exception as e:  # noqa: BLE001
            violation("diff-raised", f"{type(e).__name__}: {e}")
            return True
        if changes:
            violation("hash-diff-between-lazy-and-expanded-not-empty", [(c.typ, c.key) for c in changes])
        # loading is idempotent, and after a full load both indexes list the same keys
        snap1 = sorted((k, _proj(e)) for k, e in lazy.iteritems())
        lazy.load()
        snap2 = sorted((k, _proj(e)) for k, e in lazy.iteritems())
        if snap1 != snap2:
            violation("loading-is-not-idempotent", None)
        want = sorted((k, _proj(e)) for k, e in full.iteritems())
        if snap2 != want:
            violation("loaded-index-differs-from-expanded", (snap2, want))
        journal({"trace": trace, "files": sorted(files)}, nontrivial=True)
        return True
    finally:
        env.close()


def _on_path(prefix, key):
    n = min(len(prefix), len(key))
    return prefix[:n] == key[:n]


def h_view(pi: int, q: int, p1: bool, p2: bool, p3: bool) -> bool:
    """
    pre: 0 <= pi <= 7 and 0 <= q <= 7
    post: _
    """
    files = _shape(p1, p2, p3)
    if files is None:
        return True
    env = make_env()
    try:
        with NoTracing():
            lazy, full, cache = _build(env, files)
        prefix = KEYS[pick(pi, 0, NK)]
        v = view(lazy, lambda key: _on_path(prefix, key))
        try:
            got = sorted((k, _proj(e)) for k, e in v.iteritems())
            qk = KEYS[pick(q, 0, NK)]
            try:
                item = ("ok", _proj(v[qk]))
            except KeyError:
                item = ("KeyError",)
            lsq = None
            try:
                lsq = sorted(k for k in v.ls(qk, detail=False))
            except KeyError:
                lsq = "KeyError"
        except HarnessGap:
            raise
        except Exception as e:  # noqa: BLE001
            violation("view-raised", f"{type(e).__name__}: {e}")
            return True
        want = sorted((k, _proj(e)) for k, e in full.iteritems() if _on_path(prefix, k))
        if got != want:
            violation("view-does-not-expose-exactly-the-filtered-entries", (prefix, got, want))
        if qk != () and not _on_path(prefix, qk):
            if item != ("KeyError",):
                violation("view-serves-filtered-out-key", (prefix, qk))
        else:
            try:
                ref = ("ok", _proj(full[qk]))
            except KeyError:
                ref = ("KeyError",)
            if item != ref:
                violation("view-lookup-differs-from-index", (prefix, qk, item, ref))
        try:
            ref_ls = sorted(k for k in full.ls(qk, detail=False) if _on_path(prefix, k))
        except KeyError:
            ref_ls = "KeyError"
        if lsq != ref_ls:
            violation("view-listing-differs", (prefix, qk, lsq, ref_ls))
        journal({"prefix": "/".join(prefix), "q": "/".join(qk)}, nontrivial=True)
        return True
    finally:
        env.close()
