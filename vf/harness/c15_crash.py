"""C15 - a crash at any filesystem mutation leaves the store valid, and re-running recovers.

The model filesystem raises Crash (a BaseException) at the k-th primitive mutation (mkdir, create, write, rename, chmod, link,
symlink, unlink, rmdir, state-table commit) and then freezes, so clean-up handlers that a real kill would never run cannot
change anything.  k is symbolic.  The crashed state is audited, then the operation is re-run with fresh in-memory objects
(a new process) over the surviving filesystem and state table and must converge to the uninterrupted run's result.

cube: scenario ("stage" | "save" | "store2store" | "upload"), cls ("local"|"base"), lo/hi (range of crash indexes of this cube)
"""
import hashlib
import json

from dvc_data.hashfile.build import build
from dvc_data.hashfile.hash_info import HashInfo
from dvc_data.hashfile.state import _checksum
from dvc_data.hashfile.transfer import transfer

from vf.env import ModelEnv, make_env, make_model_hashes
from vf.hlib import B, HarnessGap, NoTracing, cube, journal, pick, violation
from vf.modelfs import Crash

SCEN = cube("scenario", "stage")
CLS = cube("cls", "local")
LO, HI = int(cube("lo", 0)), int(cube("hi", 10))
ALLFILES = {"a": b"AAAA", "d/b": b"", "d/c": b"CC\r\n", "d/e/f": b"AAAA"}
SHAPE = cube("shape", [1, 1, 1, 0])
FILES = {k: v for (k, v), p in zip(ALLFILES.items(), SHAPE) if p}


def _is_tmp(oid):
    return oid.endswith(".tmp") or ".tmp" in oid


def _mk_objects(env, table, scen):
    """fresh in-memory objects (= a new process) over the persistent filesystem and state table"""
    st = env.state()
    if table is not None:
        st.hashes.table.update(table)
    cfg = {"state": st}
    cache = env.local_odb("cache", **cfg) if CLS == "local" else env.base_odb("cache", **cfg)
    other = env.local_odb("other", state=st) if CLS == "local" else env.base_odb("other", state=st)
    return st, cache, other


def _operation(env, st, cache, other, scen):
    src = env.p("src")
    if scen == "stage":
        staging, _, obj = build(cache, src, env.fs, "md5")
        transfer(staging, cache, {obj.hash_info}, shallow=False)
    elif scen == "upload":
        staging, _, obj = build(cache, src, env.fs, "md5", upload=True)
        transfer(staging, cache, {obj.hash_info}, shallow=False)
    elif scen == "save":
        from dvc_data.index import ObjectStorage
        from dvc_data.index.build import build as ibuild
        from dvc_data.index.save import md5 as imd5
        from dvc_data.index.save import save

        idx = imd5(ibuild(src, env.fs), state=st)
        idx.storage_map.add_cache(ObjectStorage((), cache))
        save(idx)
    elif scen == "store2store":
        # `other` was filled during set-up; move everything into the cache
        ids = {HashInfo("md5", o) for o in env.odb_objects(other) if not _is_tmp(o)}
        transfer(other, cache, ids)
    else:
        raise HarnessGap(scen)


def _setup(env, scen):
    for k, v in FILES.items():
        env.write(env.p("src") + "/" + k, v)
    if scen == "store2store":
        st, cache, other = _mk_objects(env, None, scen)
        staging, _, obj = build(other, env.p("src"), env.fs, "md5")
        transfer(staging, other, {obj.hash_info}, shallow=False)


def _audit(env, cache, table, tag):
    objs = env.odb_objects(cache)
    modes = env.odb_modes(cache)
    real = {o: d for o, d in objs.items() if not _is_tmp(o)}
    for oid, data in real.items():
        if hashlib.md5(data).hexdigest() != oid.split(".")[0]:
            if CLS == "local" and modes.get(oid) == 0o444:
                violation("mismatching-object-left-write-protected" + tag, oid)
        if oid.endswith(".dir") and hashlib.md5(data).hexdigest() == oid.split(".")[0]:
            for e in json.loads(data.decode()):
                if e["md5"] not in real:
                    violation("directory-object-present-without-its-file" + tag, (oid, e["md5"]))
    # a state row whose validity token matches the file must carry the hash of the file's bytes
    for path, raw in list(table.items()):
        if not env.exists(path):
            continue
        try:
            entry = json.loads(raw)
            info = env.fs.info(path)
        except Exception:  # noqa: BLE001
            continue
        if info["type"] != "file" or entry.get("checksum") != _checksum(info):
            continue
        (name, value), = entry["hash_info"].items()
        if name in ("md5",) and hashlib.md5(env.read(path)).hexdigest() != value.split(".")[0]:
            violation("state-entry-vouches-for-wrong-bytes" + tag, path)
    return real


def reference_run(scen):
    """uninterrupted run (outside tracing): number of primitive mutations and the resulting store"""
    env = ModelEnv()
    try:
        env.inner.two_step_writes = True
        _setup(env, scen)
        st, cache, other = _mk_objects(env, None, scen)
        n0 = len(env.inner.log)
        _operation(env, st, cache, other, scen)
        n = len(env.inner.log) - n0
        objs = {o: d for o, d in env.odb_objects(cache).items() if not _is_tmp(o)}
        return n, objs
    finally:
        env.close()


def h_crash(k: int) -> bool:
    """
    pre: LO <= k < HI
    post: _
    """
    with NoTracing():
        n, ref_objs = reference_run(SCEN)
    if LO >= n:
        journal({"scenario": SCEN, "n": n, "k": None}, nontrivial=True)
        return True
    kk = pick(k, LO, min(HI, n) - 1)
    env = make_env()
    try:
        with NoTracing():
            env.inner.two_step_writes = True
            _setup(env, SCEN)
            st, cache, other = _mk_objects(env, None, SCEN)
            env.inner.crash_at = len(env.inner.log) + kk
            # cube interrupt: the process dies from an interrupt delivered as an exception (SIGINT -> KeyboardInterrupt): the stack
            # unwinds, `finally:` blocks and BaseException handlers still run against the live filesystem before the process is gone
            env.inner.freeze_on_crash = not cube("interrupt", False)
        crashed = False
        at = ""
        try:
            _operation(env, st, cache, other, SCEN)
        except Crash as c:
            crashed = True
            # the crash point is named in the violation tag when it is the one known window (see known_findings.json): death after
            # dvc_objects' reflink probe created the destination in place and before it unlinked it again
            if c.args and c.args[0][0] == "reflink-unlink":
                at = "@reflink-probe-window"
        except HarnessGap:
            raise
        except Exception as e:  # noqa: BLE001
            violation("operation-raised", f"{type(e).__name__}: {e}")
            return True
        if not crashed:
            violation("crash-point-not-reached", (kk, n))
            return True
        with NoTracing():
            table = dict(st.hashes.table)
            _audit(env, cache, table, at)
            # new process: in-memory objects are gone, the filesystem and the committed state rows survive
            env.inner.frozen = False
            env.inner.crash_at = None
        try:
            st2, cache2, other2 = _mk_objects(env, table, SCEN)
            _operation(env, st2, cache2, other2, SCEN)
        except HarnessGap:
            raise
        except Exception as e:  # noqa: BLE001
            violation("re-run-after-crash-raised", (kk, f"{type(e).__name__}: {e}"))
            return True
        with NoTracing():
            real = _audit(env, cache2, dict(st2.hashes.table), "-after-rerun" + at)
            for oid, data in real.items():
                if hashlib.md5(data).hexdigest() != oid.split(".")[0]:
                    violation("mismatching-object-survives-re-run" + at, (kk, oid))
            if set(real) != set(ref_objs):
                violation("re-run-does-not-converge-to-uninterrupted-result" + at, (kk, sorted(set(real) ^ set(ref_objs))))
            if CLS == "local":
                modes = env.odb_modes(cache2)
                bad = [o for o in real if modes.get(o) != 0o444]
                if bad:
                    violation("object-not-protected-after-re-run" + at, (kk, bad))
        journal({"scenario": SCEN, "n": n, "k": kk}, nontrivial=True)
        return True
    finally:
        env.close()
