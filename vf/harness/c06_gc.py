"""C06 - hashfile.gc.gc on real stores over the model (replay: real) filesystem.

cube: listing (per directory object the file indexes it lists), cls ("local"|"base"|"remote"), shallow (bool)
symbolic: which files / directory objects are in the store, which ids are in the used set (ids absent from the store included),
          a used id carrying another algorithm name, dry, read_only
"""
import hashlib

from dvc_objects.errors import ObjectDBPermissionError

from dvc_data.hashfile.gc import gc
from dvc_data.hashfile.hash_info import HashInfo
from dvc_data.hashfile.tree import Tree

from vf.env import make_env
from vf.hlib import B, HarnessGap, NoTracing, cube, journal, violation

LISTING = cube("listing", [[0, 1]])
ND = len(LISTING)
NF = int(cube("nfiles", 3))
CLS = cube("cls", "local")
SHALLOW = bool(cube("shallow", True))
CONT = [b"g0", b"g1\n", b""]
FO = [hashlib.md5(c).hexdigest() for c in CONT]


def _mktree(idxs):
    t = Tree()
    for n, i in enumerate(idxs):
        t.add((f"n{n}",), None, HashInfo("md5", FO[i]))
    t.digest()
    return t


def h_gc(s0: bool, s1: bool, s2: bool, sd0: bool, sd1: bool, u0: bool, u1: bool, u2: bool, ud0: bool, ud1: bool,
         alien: bool, dry: bool, ro: bool) -> bool:
    """
    post: _
    """
    in_store = [B(v) for v in (s0, s1, s2)[:NF]]
    dir_in_store = [B(v) for v in (sd0, sd1)[:ND]]
    used_f = [B(v) for v in (u0, u1, u2)[:NF]]
    used_d = [B(v) for v in (ud0, ud1)[:ND]]
    alien = bool(cube("alien", False))
    ro = bool(cube("ro", False))
    dry = B(dry)
    env = make_env()
    try:
        with NoTracing():
            trees = [_mktree(l) for l in LISTING]
            # two identical listings are one object: stored / used if either copy is
            for j in range(ND):
                for k in range(ND):
                    if trees[j].oid == trees[k].oid:
                        dir_in_store[j] = dir_in_store[j] or dir_in_store[k]
                        used_d[j] = used_d[j] or used_d[k]
            cfg = {"read_only": True} if ro else {}
            odb = {"local": env.local_odb, "base": env.base_odb, "remote": env.remote_odb}[CLS]("store", **cfg)
            prot = 0o444 if CLS == "local" else None
            for i in range(NF):
                if in_store[i]:
                    env.write(odb.oid_to_path(FO[i]), CONT[i], fs=odb.fs, mode=prot)
            for j, t in enumerate(trees):
                if dir_in_store[j]:
                    env.write(odb.oid_to_path(t.oid), t.as_bytes(), fs=odb.fs, mode=prot)
            cache = None
            if cube("cache", False):  # the listings are available from a separate cache store, whatever the collected store holds
                cache = env.base_odb("listings")
                for t in trees:
                    env.write(cache.oid_to_path(t.oid), t.as_bytes(), fs=cache.fs)
                cache_before = env.odb_objects(cache)
            before = env.odb_objects(odb)
            used = [HashInfo("md5", FO[i]) for i in range(NF) if used_f[i]]
            used += [trees[j].hash_info for j in range(ND) if used_d[j]]
            if alien:  # an id of another algorithm whose value equals a stored object's name: must not protect it
                used.append(HashInfo("sha256", FO[0]))
                used.append(HashInfo("sha256", trees[0].oid))
            keep = {h.value for h in used if h.name == "md5"}
            unloadable = False
            listed_by_unloadable = set()
            if not SHALLOW:
                for j in range(ND):
                    if used_d[j]:
                        if dir_in_store[j] or cache is not None:
                            keep |= {FO[i] for i in LISTING[j]}
                        else:
                            unloadable = True
                            listed_by_unloadable |= {FO[i] for i in LISTING[j]}
            expected_removed = set(before) - keep
        outcome, ret = "ok", None
        try:
            ret = gc(odb, used, shallow=SHALLOW, dry=dry, **({"cache_odb": cache} if cache is not None else {}))
        except ObjectDBPermissionError:
            outcome = "refused"
        except HarnessGap:
            raise
        except FileNotFoundError as e:
            outcome = "notfound"
            if not unloadable:
                violation("gc-raised", f"FileNotFoundError: {e}")
        except Exception as e:  # noqa: BLE001
            outcome = "crash"
            violation("gc-raised", f"{type(e).__name__}: {e}")
        with NoTracing():
            after = env.odb_objects(odb)
            if cache is not None and env.odb_objects(cache) != cache_before:
                violation("gc-modified-the-cache-store", None)
            if ro:
                if outcome != "refused":
                    violation("read-only-store-not-refused", outcome)
                if after != before:
                    violation("read-only-store-modified", sorted(set(before) - set(after)))
            elif outcome == "ok":
                removed = set(before) - set(after)
                if unloadable and not dry and (removed & listed_by_unloadable) - keep:
                    # the used directory object could not be expanded (it is not in the store): collecting anyway deletes files a used
                    # directory lists
                    violation("file-of-unexpandable-used-directory-removed", sorted(removed & listed_by_unloadable))
                if dry:
                    if after != before:
                        violation("dry-run-removed-objects", sorted(removed))
                else:
                    lost_used = removed & keep
                    if lost_used:
                        violation("used-object-removed", sorted(lost_used))
                    if removed != expected_removed:
                        violation("unused-object-kept", sorted(expected_removed - removed))
                    if set(after) - set(before) or any(after[k] != before[k] for k in after):
                        violation("gc-modified-or-added-objects", None)
                if ret != len(expected_removed):
                    violation("gc-count-wrong", (ret, len(expected_removed)))
            elif outcome in ("notfound", "refused") and after != before and not ro:
                violation("failed-gc-removed-objects", sorted(set(before) - set(after)))
        journal({"store": [int(v) for v in in_store], "dstore": [int(v) for v in dir_in_store], "used": [int(v) for v in used_f],
                 "dused": [int(v) for v in used_d], "alien": int(alien), "dry": int(dry), "ro": int(ro), "outcome": outcome},
                nontrivial=bool(before))
        return True
    finally:
        env.close()
