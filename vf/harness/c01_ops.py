"""C01 / C02 - operation sequences over object stores: content addressing after every step (C01) and the
stage -> store -> checkout round trip (C02).

cube: ops (string over S F U X I M, see below), cls ("local"|"base"), link, state (bool), depth (list: nesting depth per slot),
      names (index into NAME_SETS), prop ("C01"|"C02")
  S stage directory + transfer into the cache        F stage single file + transfer
  U stage directory with upload=True + transfer      X cache -> second store (other class) transfer
  I index build + md5 + save (nested trees)          M migrate the cache (md5) to a sha256 store
  L stage + transfer into a legacy (md5-dos2unix) store that shares the hash-state cache with the md5 store
symbolic: per slot presence and content selector (empty / CRLF text / binary / same as slot 0), pre-existing objects in the cache.
"""
import hashlib
import json

from dvc_data.hashfile.build import build
from dvc_data.hashfile.checkout import checkout
from dvc_data.hashfile.db.migrate import migrate, prepare
from dvc_data.hashfile.hash_info import HashInfo
from dvc_data.hashfile.transfer import transfer
from dvc_data.hashfile.tree import Tree

from vf.env import make_env
from vf.hlib import B, HarnessGap, NoTracing, Viol, cube, journal, pick, violation

OPS = cube("ops", "S")
CLS = cube("cls", "local")
LINK = cube("link", "copy")
WITH_STATE = bool(cube("state", False))
DEPTH = cube("depth", [0, 1, 2])
PROP = cube("prop", "C01")
NAME_SETS = [["a", "b", "c"], ["é x", "b\\c", ".h.dir"], ["-", "a b", "ü"], [".a", "a", "..b"]]  # set 3: dot-files next to their undotted twins
NAMES = NAME_SETS[int(cube("names", 0))]
DIRS = ["", "d", "d/é e"]
POOL = [b"", b"line1\r\nline2\r\n", b"\x00\x01\xffbinary", None]  # None = same bytes as slot 0


def _canon(listing):
    return json.dumps(sorted(listing, key=lambda e: e["relpath"]), sort_keys=True).encode()


def _legacy_md5(data):
    """md5-dos2unix, stated independently: CRLF -> LF before hashing iff the first 512 bytes look like text"""
    head = data[:512]
    text = bool(head) and 0 not in head and 10 * sum(1 for b in head if not (32 <= b < 127 or b in (8, 9, 10, 12, 13))) <= 3 * len(head)
    if not head:
        text = True
    return hashlib.md5(data.replace(b"\r\n", b"\n") if text else data).hexdigest()


def audit(env, odb, alg, local):
    """every object of the store is named by the digest of its own bytes; local objects are read-only"""
    objs = env.odb_objects(odb)
    modes = env.odb_modes(odb) if local else {}
    for oid, data in objs.items():
        if oid.endswith(".tmp") or ".tmp" in oid:
            continue
        want = _legacy_md5(data) if alg == "md5-dos2unix" else hashlib.new(alg, data).hexdigest()
        if oid.endswith(".dir"):
            if oid != want + ".dir":
                violation("directory-object-name-does-not-match-bytes", (oid, want))
            try:
                listing = json.loads(data.decode())
            except ValueError:
                violation("directory-object-not-a-listing", oid)
                continue
            if _canon(listing) != data:
                violation("directory-object-not-canonical", oid)
        elif oid != want:
            violation("file-object-name-does-not-match-bytes", (oid, want, alg))
        if local and modes.get(oid, 0o444) != 0o444:
            violation("local-object-not-read-only", (oid, oct(modes[oid])))
    return objs


def h_ops(p0: bool, p1: bool, p2: bool, c0: int, c1: int, c2: int, pre: int) -> bool:
    """
    pre: 0 <= c0 <= 2 and 0 <= c1 <= 3 and 0 <= c2 <= 1 and 0 <= pre <= 2
    post: _
    """
    present = [True, B(p1), B(p2)]
    sel = [pick(c0, 0, 2), pick(c1, 0, 3) if present[1] else 0, (2, 3)[pick(c2, 0, 1)] if present[2] else 0]
    preexist = int(cube("pre", 0))  # 0 nothing, 1 slot-0 object already in the cache, 2 a foreign intact object in the cache
    env = make_env()
    try:
        with NoTracing():
            st = env.state() if (WITH_STATE or "L" in OPS) else None
            cfg = {"type": [LINK]}
            if st is not None:
                cfg["state"] = st
            pre = "exp.dirty-2024/" if cube("dirname", False) else ""  # stores below a folder whose name contains '.dir'
            cache = env.local_odb(pre + "cache", **cfg) if CLS == "local" else env.base_odb(pre + "cache", **cfg)
            other = env.base_odb(pre + "other") if CLS == "local" else env.local_odb(pre + "other")
            # cube cross: the migration target is of the other store class (a local store fed by hardlinks out of an unprotecting base store)
            sha_local = (CLS == "local") != bool(cube("cross", False))
            sha = env.local_odb(pre + "sha", hash_name="sha256") if sha_local else env.base_odb(pre + "sha", hash_name="sha256")
            src = env.p("src")
            env.mkdir(src)
            files = {}
            for i in range(3):
                if present[i]:
                    data = POOL[sel[i]] if POOL[sel[i]] is not None else POOL[sel[0]]
                    rel = (DIRS[DEPTH[i]] + "/" if DIRS[DEPTH[i]] else "") + NAMES[i]
                    files[rel] = data
                    env.write(src + "/" + rel, data)
            env.mkdir(src + "/emptydir")
            if preexist == 1:
                d0 = files[sorted(files)[0]]
                env.write(cache.oid_to_path(hashlib.md5(d0).hexdigest()), d0, mode=0o444 if CLS == "local" else None)
            elif preexist == 2:
                env.write(cache.oid_to_path(hashlib.md5(b"foreign").hexdigest()), b"foreign", mode=0o444 if CLS == "local" else None)
        obj = None
        stores = [(cache, "md5", CLS == "local"), (other, "md5", CLS != "local"), (sha, "sha256", sha_local)]
        if "L" in OPS:
            with NoTracing():
                legacy = env.local_odb("legacy", hash_name="md5-dos2unix", state=st)
            stores.append((legacy, "md5-dos2unix", True))

        def check_all(step):
            with NoTracing():
                for odb, alg, local in stores:
                    audit(env, odb, alg, local)

        done = []
        for op in OPS:
            try:
                if op == "L":
                    lstaging, _, lobj = build(legacy, src, env.fs, "md5-dos2unix")
                    transfer(lstaging, legacy, {lobj.hash_info}, shallow=False)
                elif op == "S":
                    # cube trailing: the directory is named with a trailing separator (build() strips it before deriving keys)
                    staging, meta, obj = build(cache, src + ("/" if cube("trailing", False) else ""), env.fs, "md5")
                    transfer(staging, cache, {obj.hash_info}, shallow=False)
                    with NoTracing():
                        if meta.nfiles != len(files) or meta.size != sum(len(v) for v in files.values()):
                            violation("reported-count-or-size-wrong", (meta.nfiles, meta.size, len(files)))
                        want = {tuple(k.split("/")): hashlib.md5(v).hexdigest() for k, v in files.items()}
                        got = {k: hi.value for k, _, hi in obj}
                        if got != want:
                            violation("built-listing-differs-from-source", (sorted(got), sorted(want)))
                        loaded = {k: hi.value for k, _, hi in Tree.load(cache, obj.hash_info)}
                        if loaded != want:
                            violation("reloaded-listing-differs", sorted(loaded))
                elif op == "F":
                    first = sorted(files)[0]
                    staging, meta, fobj = build(cache, src + "/" + first, env.fs, "md5")
                    transfer(staging, cache, {fobj.hash_info})
                    with NoTracing():
                        if fobj.hash_info.value != hashlib.md5(files[first]).hexdigest():
                            violation("file-staged-under-wrong-id", first)
                elif op == "U":
                    staging, meta, obj = build(cache, src, env.fs, "md5", upload=True)
                    transfer(staging, cache, {obj.hash_info}, shallow=False)
                elif op == "X":
                    transfer(cache, other, {obj.hash_info}, shallow=False)
                elif op == "I":
                    from dvc_data.index import ObjectStorage
                    from dvc_data.index.build import build as ibuild
                    from dvc_data.index.save import md5 as imd5
                    from dvc_data.index.save import save

                    idx = imd5(ibuild(src, env.fs), state=st)
                    idx.storage_map.add_cache(ObjectStorage((), cache))
                    save(idx)
                    with NoTracing():
                        objs = env.odb_objects(cache)
                        for key, entry in idx.items():
                            if entry.meta and entry.meta.isdir and entry.hash_info:
                                pre_ = "/".join(key) + "/"
                                sub = [{"md5": hashlib.md5(v).hexdigest(), "relpath": k[len(pre_):]} for k, v in files.items() if k.startswith(pre_)]
                                if entry.hash_info.value not in objs:
                                    violation("saved-directory-object-missing", key)
                                elif objs[entry.hash_info.value] != _canon(sub):
                                    violation("saved-directory-object-wrong-listing", key)
                elif op == "M":
                    import dvc_data.hashfile.db.migrate as MG
                    from vf.hlib import PermExecutor

                    real_exec = MG.ThreadPoolExecutor
                    PermExecutor.reverse = bool(cube("mrev", True))  # hashing tasks complete in reverse submission order
                    MG.ThreadPoolExecutor = PermExecutor
                    try:
                        migrate(prepare(cache, sha))
                    finally:
                        MG.ThreadPoolExecutor = real_exec
                    with NoTracing():
                        a, b = env.odb_objects(cache), env.odb_objects(sha)
                        if sorted(a.values()) != sorted(b.values()):
                            violation("migration-lost-or-changed-objects", (len(a), len(b)))
            except (HarnessGap, Viol):
                raise
            except Exception as e:  # noqa: BLE001
                violation("operation-raised", (op, f"{type(e).__name__}: {e}"))
                return True
            done.append(op)
            check_all(op)
        if PROP == "C02" and obj is not None:
            # object-level checkout into a fresh location
            out = env.p("out")
            store = other if "X" in OPS else cache
            try:
                checkout(out, env.fs, obj, store, force=False, state=st)
            except HarnessGap:
                raise
            except Exception as e:  # noqa: BLE001
                violation("fresh-checkout-raised", f"{type(e).__name__}: {e}")
                return True
            with NoTracing():
                snap = env.snapshot(out)
                got = {k: (v[1] if v[0] == "file" else env.read(out + "/" + k)) for k, v in snap.items() if v[0] in ("file", "link")}
                if got != files:
                    violation("round-trip-differs", (sorted(got), sorted(files)))
                if "emptydir" in snap:
                    violation("empty-directory-was-tracked", None)
                env.remove(out)
            # the same process checks the object out again after the user removed the first copy
            try:
                checkout(out, env.fs, obj, store, force=False, state=st)
            except HarnessGap:
                raise
            except Exception as e:  # noqa: BLE001
                violation("second-fresh-checkout-raised", f"{type(e).__name__}: {e}")
                return True
            with NoTracing():
                snap = env.snapshot(out)
                got = {k: (v[1] if v[0] == "file" else env.read(out + "/" + k)) for k, v in snap.items() if v[0] in ("file", "link")}
                if got != files:
                    violation("second-round-trip-differs", (sorted(got), sorted(files)))
            # index-level route: build -> md5 -> save -> compare/apply into another fresh location
            from dvc_data.index import DataIndex, ObjectStorage
            from dvc_data.index.build import build as ibuild
            from dvc_data.index.checkout import apply, compare
            from dvc_data.index.save import md5 as imd5
            from dvc_data.index.save import save

            try:
                idx = imd5(ibuild(src, env.fs), state=st)
                idx.storage_map.add_cache(ObjectStorage((), cache))
                save(idx)
                out2 = env.p("out2")
                env.mkdir(out2)
                diff = compare(ibuild(out2, env.fs), idx, delete=True)
                apply(diff, out2, env.fs, update_meta=False, storage="cache")
            except HarnessGap:
                raise
            except Exception as e:  # noqa: BLE001
                violation("index-route-raised", f"{type(e).__name__}: {e}")
                return True
            with NoTracing():
                snap = env.snapshot(out2)
                got = {k: (v[1] if v[0] == "file" else env.read(out2 + "/" + k)) for k, v in snap.items() if v[0] in ("file", "link")}
                if got != files:
                    violation("index-round-trip-differs", (sorted(got), sorted(files)))
            check_all("checkout")
        journal({"files": {k: len(v) for k, v in files.items()}, "sel": sel, "pre": preexist, "ops": "".join(done)}, nontrivial=True)
        return True
    finally:
        env.close()
