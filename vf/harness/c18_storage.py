"""C18 - push and fetch through storage mappings (index/index.py StorageMapping, collect.py, push.py, fetch.py, save.py).

h_resolve : longest-prefix, per-role resolution of StorageMapping (role presence decided lazily when the code reads it).
h_move    : an index whose entries map to caches/remotes by key prefix is saved, collected, pushed (first round with symbolic
            upload failures, then a clean retry), fetched into an empty cache and checked out again.
cube (h_move): mapping (0: one prefix; 1: `x` has its own remote; 2: `x` has its own cache and remote; 3: two disjoint prefixes `x`
               and `y` - no root prefix - that designate the SAME cache and remote; 4: the pushed index holds `x` as ONE unloaded
               directory-object entry and `x/s` - a prefix inside it - has its own remote), rkind ("remote"|"base")
"""
import hashlib

from dvc_data.index import DataIndex, DataIndexEntry, ObjectStorage, StorageInfo, StorageKeyError, StorageMapping

from vf.env import make_env
from vf.hlib import B, HarnessGap, NoTracing, cube, journal, pick, violation

AB = ["a", "b"]


class LazyInfo(StorageInfo):
    """StorageInfo whose role presence is a symbolic bit branched on at the moment the resolution code reads the role"""

    def __init__(self, tag, bits):
        object.__setattr__(self, "_tag", tag)
        object.__setattr__(self, "_bits", bits)
        object.__setattr__(self, "_dec", {})

    def _role(self, name):
        d = object.__getattribute__(self, "_dec")
        if name not in d:
            d[name] = (object.__getattribute__(self, "_tag"), name) if B(object.__getattribute__(self, "_bits")[name]) else None
        return d[name]

    data = property(lambda self: self._role("data"))
    cache = property(lambda self: self._role("cache"))
    remote = property(lambda self: self._role("remote"))


def h_resolve(q0: int, q1: int, ql: int, r0: int, r1: int, rl: int, s0: int, s1: int, sl: int, has0: bool, has1: bool, has2: bool,
              d0: bool, c0: bool, m0: bool, d1: bool, c1: bool, m1: bool, d2: bool, c2: bool, m2: bool) -> bool:
    """
    pre: 0 <= q0 <= 1 and 0 <= q1 <= 1 and 0 <= ql <= 2 and 0 <= r0 <= 1 and 0 <= r1 <= 1 and 0 <= rl <= 2
    pre: 0 <= s0 <= 1 and 0 <= s1 <= 1 and 1 <= sl <= 2
    post: _
    """
    key = (AB[pick(q0, 0, 1)], AB[pick(q1, 0, 1)])[: pick(ql, 0, 2)]
    fixed = cube("prefixes", None)
    if fixed is not None:
        prefixes = [tuple(p) for p in fixed]
    else:
        prefixes = [(), (AB[pick(r0, 0, 1)], AB[pick(r1, 0, 1)])[: pick(rl, 0, 2)], (AB[pick(s0, 0, 1)], AB[pick(s1, 0, 1)])[: pick(sl, 1, 2)]]
    hasmask = cube("has", None)
    if hasmask is not None:
        has0, has1, has2 = [bool(v) for v in hasmask]
    bits = [dict(data=d0, cache=c0, remote=m0), dict(data=d1, cache=c1, remote=m1), dict(data=d2, cache=c2, remote=m2)]
    sm = StorageMapping()
    model = {}
    for i, (p, h) in enumerate(zip(prefixes, (has0, has1, has2))):
        if B(h):
            info = LazyInfo(i, bits[i])
            sm[p] = info
            model[p] = info  # a later identical prefix replaces the earlier one, exactly like the mapping
    try:
        got = sm[key]
        outcome = "ok"
    except StorageKeyError:
        got, outcome = None, "keyerror"
    except HarnessGap:
        raise
    except Exception as e:  # noqa: BLE001
        violation("resolution-raised", f"{type(e).__name__}: {e}")
        return True
    cands = sorted([p for p in model if len(p) <= len(key) and key[: len(p)] == p], key=len, reverse=True)
    if not cands:
        if outcome != "keyerror":
            violation("no-prefix-matches-but-no-key-error", key)
    else:
        if outcome != "ok":
            violation("matching-prefix-but-key-error", (key, cands))
        else:
            for role in ("data", "cache", "remote"):
                exp = None
                for p in cands:
                    v = getattr(model[p], role)
                    if v is not None:
                        exp = v
                        break
                if getattr(got, role) != exp:
                    violation("role-not-resolved-by-longest-prefix", (role, key, cands, getattr(got, role), exp))
    journal({"key": list(key), "prefixes": [list(p) for p in model], "outcome": outcome}, nontrivial=bool(model))
    return True


# ---------------------------------------------------------------------------------------------------------
MAPPING = int(cube("mapping", 0))
RKIND = cube("rkind", "remote")
FILES = {"x/a": b"XA", "x/s/b": b"", "y": b"XA" if cube("dup", False) else b"Y-own"}
# `y` has content of its own (its object is reachable only through its own prefix) unless the cube asks for a duplicate across datasets


def _md5(b):
    return hashlib.md5(b).hexdigest()


def h_move(pa: bool, pb: bool, py: bool, f0: bool, f1: bool, f2: bool, f3: bool) -> bool:
    """
    post: _
    """
    from dvc_data.hashfile.tree import Tree
    from dvc_data.hashfile.hash_info import HashInfo
    from dvc_data.index.build import build as ibuild
    from dvc_data.index.checkout import apply, compare
    from dvc_data.index.collect import collect
    from dvc_data.index.fetch import fetch
    from dvc_data.index.push import push
    from dvc_data.index.save import md5 as imd5
    from dvc_data.index.save import save

    present = {"x/a": True, "x/s/b": B(pb), "y": B(py)}
    files = {k: v for k, v in FILES.items() if present[k]}
    env = make_env()
    try:
        with NoTracing():
            ws = env.p("ws")
            for k, v in files.items():
                env.write(ws + "/" + k, v)
            mk_remote = (lambda n: env.remote_odb(n)) if RKIND == "remote" else (lambda n: env.base_odb("remote_" + n))
            C0, R0 = env.local_odb("c0"), mk_remote("r0")
            C1 = env.local_odb("c1") if MAPPING == 2 else C0
            R1 = mk_remote("r1") if MAPPING in (1, 2, 4) else R0

        def storage_map(idx, caches):
            if MAPPING == 3:
                for pre in (("x",), ("y",)):
                    idx.storage_map.add_cache(ObjectStorage(pre, caches[0]))
                    idx.storage_map.add_remote(ObjectStorage(pre, R0))
                return
            if cube("nested_first", False) and MAPPING in (1, 2):
                # registration order is not part of the contract: the nested prefix is registered before its parent
                old = idx.storage_map
                sm = type(old)()
                sm.add_remote(ObjectStorage(("x",), R1))
                if MAPPING == 2:
                    sm.add_cache(ObjectStorage(("x",), caches[1]))
                for pre in list(old):  # what build() registered (the workspace as data storage of the root prefix)
                    if old[pre].data is not None:
                        sm.add_data(old[pre].data)
                sm.add_cache(ObjectStorage((), caches[0]))
                sm.add_remote(ObjectStorage((), R0))
                idx.storage_map = sm
                return
            idx.storage_map.add_cache(ObjectStorage((), caches[0]))
            if MAPPING == 4:
                # the only remote is registered for a prefix *inside* the unloaded directory object (nothing at a shorter prefix loads it first)
                idx.storage_map.add_remote(ObjectStorage(("x", "s"), R1))
                return
            idx.storage_map.add_remote(ObjectStorage((), R0))
            if MAPPING >= 1:
                idx.storage_map.add_remote(ObjectStorage(("x",), R1))
            if MAPPING == 2:
                idx.storage_map.add_cache(ObjectStorage(("x",), caches[1]))

        try:
            idx = imd5(ibuild(ws, env.fs))
            storage_map(idx, (C0, C1))
            save(idx)
        except HarnessGap:
            raise
        except Exception as e:  # noqa: BLE001
            violation("save-raised", f"{type(e).__name__}: {e}")
            return True
        if MAPPING == 4:
            with NoTracing():
                lazy = DataIndex()
                for k, e in idx.items():
                    if k == ("x",):
                        lazy[k] = DataIndexEntry(key=k, meta=e.meta, hash_info=e.hash_info)  # unloaded directory object
                    elif k[0] != "x":
                        lazy[k] = DataIndexEntry(key=k, meta=e.meta, hash_info=e.hash_info, loaded=e.loaded)
                storage_map(lazy, (C0, C1))
                idx = lazy
        with NoTracing():
            # reachable object sets per remote, computed from the generated data
            def tree_oid(prefix):
                t = Tree()
                for k, v in files.items():
                    if k.startswith(prefix + "/"):
                        t.add(tuple(k[len(prefix) + 1:].split("/")), None, HashInfo("md5", _md5(v)))
                t.digest()
                return t.oid

            x_objs = {_md5(v) for k, v in files.items() if k.startswith("x/")} | {tree_oid("x")}
            if any(k.startswith("x/s/") for k in files) and MAPPING != 4:
                x_objs.add(tree_oid("x/s"))  # (the lazily held `x` lists its files flat: no nested directory object is reachable)
            y_objs = {_md5(files["y"])} if "y" in files else set()
            want = {id(R0): set(), id(R1): set()}
            if MAPPING == 4:
                xs_objs = {_md5(v) for k, v in files.items() if k.startswith("x/s/")}
                want[id(R1)] |= xs_objs
            else:
                want[id(R1)] |= x_objs
                want[id(R0)] |= y_objs
            hashes = {k: (e.hash_info.value if e.hash_info else None) for k, e in idx.items()}
        fbits = {_md5(FILES["x/a"]): f0, tree_oid("x"): f1, _md5(b""): f2, "other": f3}
        decided = {}

        class LazyFail:
            def __contains__(self, path):
                oid = "".join(path.replace("\\", "/").split("/")[-2:])
                if oid not in decided:
                    decided[oid] = B(fbits.get(oid, fbits["other"]))
                return decided[oid]

        try:
            env.faults.fail = LazyFail()
            env.faults.events.clear()
            pushed1, failed1 = push(collect([idx], "remote", push=True))
            n_fail_events = sum(1 for _, o in env.faults.events if o == "fail")
            env.faults.fail = set()
            pushed2, failed2 = push(collect([idx], "remote", push=True))
        except HarnessGap:
            raise
        except Exception as e:  # noqa: BLE001
            violation("push-raised", f"{type(e).__name__}: {e}")
            return True
        with NoTracing():
            have = {id(R0): set(env.odb_objects(R0)), id(R1): set(env.odb_objects(R1))}
            for rid, name in ((id(R0), "r0"), (id(R1), "r1")):
                if not want[rid] <= have[rid]:
                    violation("reachable-object-not-pushed-to-designated-remote", (name, sorted(want[rid] - have[rid])))
                # the statement fixes what each remote must receive.  A remote registered for prefix P is also given the entries of
                # longer prefixes below P (observed behaviour, not excluded), but never objects that are reachable only from entries
                # outside every prefix it is registered for, and never anything unreachable from the index
                allowed = x_objs | y_objs if (rid == id(R0) and MAPPING != 2 or R1 is R0) else (x_objs if rid == id(R1) else x_objs | y_objs)
                if MAPPING == 4 and rid == id(R1):
                    allowed = xs_objs
                if MAPPING == 2 and rid == id(R0):
                    allowed = x_objs | y_objs
                if have[rid] - allowed:
                    violation("object-pushed-to-a-remote-not-covering-it", (name, sorted(have[rid] - allowed)))
            total = len(have[id(R0)]) + (len(have[id(R1)]) if R1 is not R0 else 0)
            if failed2 != 0:
                violation("clean-retry-reports-failures", failed2)
            if n_fail_events == 0 and (failed1 != 0 or pushed1 != total or pushed2 != 0):
                violation("push-counts-do-not-add-up", (pushed1, failed1, pushed2, total))
            if pushed1 + pushed2 != total:
                violation("push-counts-do-not-add-up", (pushed1, failed1, pushed2, total))
            if n_fail_events and failed1 == 0:
                violation("failed-uploads-not-counted", (n_fail_events, failed1))
        if MAPPING == 4:
            journal({"files": sorted(files), "mapping": MAPPING, "failed": sorted(o[:6] for o, v in decided.items() if v),
                     "counts": [pushed1, failed1, pushed2]}, nontrivial=True)
            return True
        # fetch into empty caches and check out
        try:
            with NoTracing():
                N0 = env.local_odb("n0")
                N1 = env.local_odb("n1") if MAPPING == 2 else N0
                idx2 = DataIndex()
                for k, e in idx.items():
                    idx2[k] = DataIndexEntry(key=k, meta=e.meta, hash_info=e.hash_info, loaded=e.loaded)
                storage_map(idx2, (N0, N1))
            fetched, ffailed = fetch(collect([idx2], "remote"))
            out = env.p("out")
            env.mkdir(out)
            d = compare(ibuild(out, env.fs), idx2, delete=True)
            apply(d, out, env.fs, update_meta=False, storage="cache")
        except HarnessGap:
            raise
        except Exception as e:  # noqa: BLE001
            violation("fetch-or-checkout-raised", f"{type(e).__name__}: {e}")
            return True
        with NoTracing():
            if ffailed:
                violation("fetch-reports-failures", ffailed)
            got0, got1 = set(env.odb_objects(N0)), set(env.odb_objects(N1))
            if MAPPING == 2:
                if not x_objs <= got1 or not y_objs <= got0:
                    violation("fetch-did-not-bring-back-the-reachable-set", (sorted(got0), sorted(got1)))
                if (got1 - x_objs) or (got0 - y_objs):
                    violation("fetch-brought-extra-objects", (sorted(got0 - y_objs), sorted(got1 - x_objs)))
            else:
                if got0 != x_objs | y_objs:
                    violation("fetch-did-not-bring-back-exactly-the-reachable-set", (sorted(got0), sorted(x_objs | y_objs)))
            if fetched != len(x_objs | y_objs) if MAPPING != 2 else fetched != len(x_objs) + len(y_objs):
                violation("fetch-count-wrong", (fetched, len(x_objs), len(y_objs)))
            for odb in (N0, N1):
                for oid, data in env.odb_objects(odb).items():
                    if _md5(data) != oid.split(".")[0]:
                        violation("fetched-object-has-wrong-bytes", oid)
            snap = env.snapshot(out)
            gotf = {k: (v[1] if v[0] == "file" else env.read(out + "/" + k)) for k, v in snap.items() if v[0] in ("file", "link")}
            if gotf != files:
                violation("checkout-from-fetched-cache-differs", (sorted(gotf), sorted(files)))
        journal({"files": sorted(files), "mapping": MAPPING, "failed": sorted(o[:6] for o, v in decided.items() if v),
                 "counts": [pushed1, failed1, pushed2, fetched]}, nontrivial=True)
        return True
    finally:
        env.close()
