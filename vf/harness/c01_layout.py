"""C01 / H-layout - oid <-> path layout of both store classes (string kernel): symbolic object ids."""
from dvc_objects.fs.local import LocalFileSystem

from dvc_data.hashfile.db import HashFileDB
from dvc_data.hashfile.db.local import LocalHashFileDB

from vf.hlib import B, cube, install_quiet, journal, pick, violation

install_quiet()
FS = LocalFileSystem()
LDB = LocalHashFileDB(FS, "/__vf__/c")
HDB = HashFileDB(FS, "/__vf__/c")
MAXLEN = int(cube("maxlen", 5))
HEX = "0123456789abcdef"


def _ishex(s):
    for c in s:
        if c not in HEX:
            return False
    return True


def h_layout(oid: str, isdir: bool) -> bool:
    """
    pre: 3 <= len(oid) <= MAXLEN
    pre: _ishex(oid)
    post: _
    """
    o = oid + ".dir" if isdir else oid
    p = LDB.oid_to_path(o)
    if p != HDB.oid_to_path(o):
        violation("store-classes-disagree-on-layout", (p, HDB.oid_to_path(o)))
    if LDB.path_to_oid(p) != o or HDB.path_to_oid(p) != o:
        violation("layout-not-invertible", (o, p))
    if not p.startswith("/__vf__/c/" + o[:2] + "/") or p[len("/__vf__/c/") + 3:] != o[2:]:
        violation("fan-out-directory-not-first-two-characters", p)
    journal({"len": pick(len(oid), 3, MAXLEN), "dir": B(isdir)}, True)
    return True


def h_injective(a: str, b: str) -> bool:
    """
    pre: 3 <= len(a) <= MAXLEN and 3 <= len(b) <= MAXLEN
    pre: _ishex(a) and _ishex(b)
    post: _
    """
    if a != b and LDB.oid_to_path(a) == LDB.oid_to_path(b):
        violation("two-ids-share-a-path", (a, b))
    journal({"la": pick(len(a), 3, MAXLEN), "lb": pick(len(b), 3, MAXLEN)}, True)
    return True
