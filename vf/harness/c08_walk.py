"""C08 / H-walk - index diff over whole indexes (index/diff.py::diff/_diff/_get_items + DataIndex.info/ls).

Two well-formed indexes over a small key universe; which keys exist (below the cube-fixed kind of the top directory `a`),
executable bits and the file hash values (strings, only compared) are symbolic.  A hashed directory entry carries a
symbolic hash constrained to be equal on both sides iff the listed children (relpath -> carried file hash) are equal
(= injectivity of the directory digest, C03), so the unchanged-hashed-directory shortcut is exercised soundly.
Oracle: flat dictionary reference, stating only what the property fixes.
"""
from dvc_data.hashfile.hash_info import HashInfo
from dvc_data.hashfile.meta import Meta
from dvc_data.index import DataIndex, DataIndexEntry
from dvc_data.index.diff import ADD, DELETE, MODIFY, RENAME, UNCHANGED, diff

from vf.hlib import B, NoTracing, cube, journal, pick, violation

A = ("a",)
CHILDREN_ALL = [("a", "x"), ("a", "y")]
TOP_ALL = [("b",)]
NCH = int(cube("nchildren", 1))
CHILDREN = CHILDREN_ALL[:NCH]
FILES = CHILDREN + TOP_ALL
AK = cube("akind", ["dir", "dir"])  # per side: "none" (no index) | "absent" | "file" | "dir" | "dirh"
MODE = cube("mode", "default")  # default | hash_only | meta_only
WITH_UNCHANGED = bool(cube("with_unchanged", False))
SLEN = 1


def _build(akind, a_hash, a_x, present, vnone, vals, xbits, dirhash):
    if akind == "none":
        return None, {}
    items = []
    if akind == "file":
        items.append((A, False, a_x, a_hash))
    elif akind == "dir":
        items.append((A, True, False, None))
    elif akind == "dirh":
        items.append((A, True, False, dirhash))
    for i, k in enumerate(FILES):
        if present[i]:
            items.append((k, False, xbits[i] if i == 0 else False, None if vnone[i] else vals[i]))
    flat = {k: (isdir, isexec, value if value else None) for k, isdir, isexec, value in items}
    with NoTracing():  # storing (possibly symbolic) field values into entries performs no operation on them
        idx = DataIndex()
        for key, isdir, isexec, value in items:
            hi = HashInfo("md5", value) if value is not None else None
            idx[key] = DataIndexEntry(key=key, meta=Meta(isdir=isdir, isexec=isexec), hash_info=hi)
    return idx, flat


def _children_listing(flat):
    return {k: v[2] for k, v in flat.items() if len(k) == 2}


def h_walk(op0: bool, op1: bool, op2: bool, np0: bool, np1: bool, np2: bool,
           on0: bool, on1: bool, on2: bool, nn0: bool, nn1: bool, nn2: bool,
           ov0: str, ov1: str, ov2: str, nv0: str, nv1: str, nv2: str,
           ox0: bool, ox1: bool, ox2: bool, nx0: bool, nx1: bool, nx2: bool,
           oah: str, nah: str, oax: bool, nax: bool, od: str, nd: str) -> bool:
    """
    pre: len(ov0) <= 1 and len(ov1) <= 1 and len(ov2) <= 1 and len(nv0) <= 1 and len(nv1) <= 1 and len(nv2) <= 1
    pre: len(oah) <= 1 and len(nah) <= 1 and len(od) == 1 and len(nd) == 1
    post: _
    """
    n = len(FILES)
    opres = [B(v) if not (k[0] == "a" and AK[0] in ("file", "none")) and AK[0] != "none" else False
             for v, k in zip((op0, op1, op2)[:n], FILES)]
    npres = [B(v) if not (k[0] == "a" and AK[1] in ("file", "none")) and AK[1] != "none" else False
             for v, k in zip((np0, np1, np2)[:n], FILES)]
    onone = [B(v) if p else True for v, p in zip((on0, on1, on2)[:n], opres)]
    nnone = [B(v) if p else True for v, p in zip((nn0, nn1, nn2)[:n], npres)]
    # directory digests: equal iff the children listings are equal (well-formedness / injectivity)
    tmp_o = {k: (None if onone[i] else (ov0, ov1, ov2)[i]) for i, k in enumerate(FILES) if len(k) == 2 and opres[i]}
    tmp_n = {k: (None if nnone[i] else (nv0, nv1, nv2)[i]) for i, k in enumerate(FILES) if len(k) == 2 and npres[i]}
    tmp_o = {k: (v if v else None) for k, v in tmp_o.items()}
    tmp_n = {k: (v if v else None) for k, v in tmp_n.items()}
    odh, ndh = od + ".dir", nd + ".dir"
    if AK[0] == "dirh" and AK[1] == "dirh":
        same_children = B(tmp_o == tmp_n)
        if same_children:
            ndh = odh
        elif B(odh == ndh):
            return True  # assumption: different listings have different digests
        # a hashed directory lists only hashed files (build_tree/digest needs them); assume it
        if any(v is None for v in tmp_o.values()) or any(v is None for v in tmp_n.values()):
            return True
    old, fo = _build(AK[0], oah, oax, opres, onone, (ov0, ov1, ov2), (ox0, ox1, ox2), odh)
    new, fn = _build(AK[1], nah, nax, npres, nnone, (nv0, nv1, nv2), (nx0, nx1, nx2), ndh)
    if old is None and new is None:
        return True
    kw = dict(with_unchanged=WITH_UNCHANGED, hash_only=(MODE == "hash_only"), meta_only=(MODE == "meta_only"))
    seen = {}
    try:
        changes = list(diff(old, new, **kw))
    except Exception as e:  # noqa: BLE001
        violation("diff-raised", f"{type(e).__name__}: {e}")
        return True
    for ch in changes:
        key = ch.key
        if key in seen:
            violation("diff-key-reported-twice", (key, seen[key], ch.typ))
        seen[key] = ch.typ
    allkeys = set(fo) | set(fn)
    extra = set(seen) - allkeys
    if extra:
        violation("diff-invented-key", sorted(extra))
    hidden_by_shortcut = set()
    if MODE == "hash_only" and not WITH_UNCHANGED and AK == ["dirh", "dirh"] and B(odh == ndh):
        hidden_by_shortcut = {k for k in allkeys if len(k) == 2}
    for k in sorted(allkeys):
        o, nw = fo.get(k), fn.get(k)
        got = seen.get(k)
        if MODE == "default":
            if o is not None and nw is None:
                exp = DELETE
            elif o is None and nw is not None:
                exp = ADD
            elif B(o == nw):
                exp = UNCHANGED
            else:
                exp = "changed"
        elif MODE == "hash_only":
            ho, hn = (o[2] if o else None), (nw[2] if nw else None)
            exp = UNCHANGED if B(ho == hn) else "changed"
        else:  # meta_only
            mo, mn = ((o[0], o[1]) if o else None), ((nw[0], nw[1]) if nw else None)
            exp = UNCHANGED if B(mo == mn) else "changed"
        if exp == UNCHANGED:
            if got is not None and got != UNCHANGED:
                violation("diff-equal-reported-changed", (k, got))
            if WITH_UNCHANGED and got is None and k not in hidden_by_shortcut:
                violation("diff-unchanged-key-missing", k)
            if not WITH_UNCHANGED and got is not None:
                violation("diff-unchanged-reported-without-request", (k, got))
        elif exp == "changed":
            if got is None or got == UNCHANGED:
                violation("diff-change-hidden", (k, got, MODE))
        elif got != exp:
            violation("diff-misclassified", (k, got, exp))
    journal({"opres": [int(v) for v in opres], "npres": [int(v) for v in npres], "types": sorted((list(k), v) for k, v in seen.items())},
            nontrivial=bool(allkeys))
    return True


# ---- rename detection ------------------------------------------------------------------------------------
from dvc_data.index.diff import Change, _detect_renames  # noqa: E402

RKEYS_ADD = [("n0",), ("d", "n1"), ("n2",)]
RKEYS_DEL = [("o0",), ("d", "o1"), ("o2",)]
NSEL = 1 + int(cube("npool", 2))


RPOOL = ["h1", "h2", "h3"]


def h_renames(a0: int, a1: int, a2: int, d0: int, d1: int, d2: int, mod: bool) -> bool:
    """
    pre: 0 <= a0 <= NSEL and 0 <= a1 <= NSEL and 0 <= a2 <= NSEL and 0 <= d0 <= NSEL and 0 <= d1 <= NSEL and 0 <= d2 <= NSEL
    post: _
    """
    nr = int(cube("nren", 2))
    adds, dels = [], []
    sel = []
    for i in range(nr):
        sa, sd = pick((a0, a1, a2)[i], 0, NSEL), pick((d0, d1, d2)[i], 0, NSEL)
        sel.append([sa, sd])
        if sa:  # 0 absent, 1 entry without hash, 2.. pool hash
            hi = HashInfo("md5", RPOOL[sa - 2]) if sa >= 2 else None
            adds.append(Change(ADD, None, DataIndexEntry(key=RKEYS_ADD[i], meta=Meta(), hash_info=hi)))
        if sd:
            hi = HashInfo("md5", RPOOL[sd - 2]) if sd >= 2 else None
            dels.append(Change(DELETE, DataIndexEntry(key=RKEYS_DEL[i], meta=Meta(), hash_info=hi), None))
    other = []
    if B(mod):
        e1 = DataIndexEntry(key=("m",), meta=Meta(), hash_info=HashInfo("md5", "p"))
        e2 = DataIndexEntry(key=("m",), meta=Meta(), hash_info=HashInfo("md5", "q"))
        other.append(Change(MODIFY, e1, e2))
    # interleave deterministically: deletions first, as a breadth-first diff may yield any order
    changes = dels + other + adds if cube("order", 0) == 0 else adds + other + dels
    try:
        out = list(_detect_renames(iter(changes)))
    except Exception as e:  # noqa: BLE001
        violation("renames-raised", f"{type(e).__name__}: {e}")
        return True
    seen_old, seen_new = [], []
    for ch in out:
        if ch.typ == RENAME:
            ho = ch.old.hash_info if ch.old else None
            hn = ch.new.hash_info if ch.new else None
            if not ho or not hn or not B(ho == hn):
                violation("rename-pairs-different-hashes", (ch.old.key, ch.new.key))
            seen_old.append(ch.old.key)
            seen_new.append(ch.new.key)
        elif ch.typ == ADD:
            seen_new.append(ch.new.key)
        elif ch.typ == DELETE:
            seen_old.append(ch.old.key)
        elif ch.typ == MODIFY:
            pass
        else:
            violation("renames-unknown-type", ch.typ)
    exp_new = sorted(c.new.key for c in adds)
    exp_old = sorted(c.old.key for c in dels)
    if sorted(seen_new) != exp_new or sorted(seen_old) != exp_old:
        violation("renames-key-lost-or-duplicated", (sorted(seen_new), exp_new, sorted(seen_old), exp_old))
    if len([c for c in out if c.typ == MODIFY]) != len(other):
        violation("renames-dropped-other-change", None)
    # no matching pair left unpaired
    left_add = [c for c in out if c.typ == ADD and c.new.hash_info]
    left_del = [c for c in out if c.typ == DELETE and c.old.hash_info]
    for ca in left_add:
        for cd in left_del:
            if B(ca.new.hash_info == cd.old.hash_info):
                violation("rename-pair-left-unpaired", (cd.old.key, ca.new.key))
    journal({"sel": sel, "adds": len(adds), "dels": len(dels), "renames": sum(1 for c in out if c.typ == RENAME), "mod": len(other)},
            nontrivial=bool(adds and dels))
    return True
