"""C04 / C11 - hashfile.transfer on real stores over the model (or, in replay, the real) filesystem.

Real code: transfer, compare_status, status, _indexed_dir_hashes, _do_transfer, _add, find_tree_by_obj_id, Tree.load,
HashFileDB.add/check, LocalHashFileDB.*, ObjectDB.add/exists/oids_exist.  Faults are injected where ObjectDB.add calls
dvc_objects.fs.generic.transfer (per-upload failure reported through on_error; process abort at the k-th upload).

cube: nfiles, listing (per directory the list of file indexes it lists; an index may repeat under a second name),
      dst ("local"|"base"|"remote"), src ("base"|"local"), mode ("closed"|"expand"), index (bool), abort (bool),
      verify (bool), prop ("C04"|"C11")
"""
import hashlib
import json

from dvc_data.hashfile.hash_info import HashInfo
from dvc_data.hashfile.transfer import transfer
from dvc_data.hashfile.tree import Tree

from vf.env import make_env
from vf.hlib import B, HarnessGap, NoTracing, cube, journal, pick, violation
from vf.modelfs import Crash

NF = int(cube("nfiles", 2))
LISTING = cube("listing", [[0, 1], [0]])
ND = len(LISTING)
DST = cube("dst", "local")
SRC = cube("src", "base")
MODE = cube("mode", "closed")
WITH_INDEX = bool(cube("index", False))
ABORT = cube("abort", False)  # False | True (symbolic index) | int (fixed upload index)
VERIFY = bool(cube("verify", False))
PROP = cube("prop", "C04")

CONT = [b"c0", b"c1\r\n", b""][:3]
FO = [hashlib.md5(c).hexdigest() for c in CONT]


def _mktree(idxs):
    t = Tree()
    seen = {}
    for i in idxs:
        n = seen.get(i, 0)
        seen[i] = n + 1
        name = f"n{i}" if n == 0 else f"sub/m{i}_{n}"
        t.add(tuple(name.split("/")), None, HashInfo("md5", FO[i]))
    t.digest()
    return t


def _closure_violations(env, dst, trees):
    with NoTracing():  # oracle side: direct listing of the (concrete) model store
        return _closure_violations_(env, dst, trees)


def _closure_violations_(env, dst, trees):
    have = env.odb_objects(dst)
    bad = []
    for t in trees:
        if t.oid in have:
            try:
                listing = json.loads(have[t.oid].decode())
            except ValueError:
                bad.append((t.oid, "unparsable"))
                continue
            for e in listing:
                if e["md5"] not in have:
                    bad.append((t.oid, e["md5"]))
    return bad, have


def h_transfer(s0: bool, s1: bool, s2: bool, p0: bool, p1: bool, p2: bool, pd0: bool, pd1: bool, pd2: bool,
               x0: bool, x1: bool, x2: bool, xd0: bool, xd1: bool, xd2: bool, c0: bool, c1: bool, c2: bool, ab: int, ek: bool = False) -> bool:
    """
    pre: 0 <= ab <= 6
    post: _
    """
    in_src = [B(v) for v in (s0, s1, s2)[:NF]]
    in_dst = [B(v) for v in (p0, p1, p2)[:NF]]
    dir_in_dst = [B(v) for v in (pd0, pd1, pd2)[:ND]]
    corrupt = [(B(v) if VERIF_CORRUPT and in_src[i] else False) for i, v in enumerate((c0, c1, c2)[:NF])]
    # the initial destination must itself be closed (otherwise the violation would not be transfer's)
    for j in range(ND):
        if dir_in_dst[j]:
            for i in set(LISTING[j]):
                in_dst[i] = True
    abort_at = (pick(ab, 0, 6) - 1 if ABORT is True else int(ABORT)) if ABORT is not False else -1  # -1: no abort
    env = make_env()
    try:
        with NoTracing():
            trees = [_mktree(l) for l in LISTING]
            src = env.local_odb("src") if SRC == "local" else env.base_odb("src")
            if DST == "local":
                dst = env.local_odb("dst", verify=VERIFY)
            elif DST == "base":
                dst = env.base_odb("dst", verify=VERIFY)
            else:
                dst = env.remote_odb("dst", verify=VERIFY)
            for i in range(NF):
                if in_src[i]:
                    env.write(src.oid_to_path(FO[i]), CONT[i] if not corrupt[i] else b"corrupt" + CONT[i], mode=0o444 if SRC == "local" else None)
                if in_dst[i]:
                    env.write(dst.oid_to_path(FO[i]), CONT[i], fs=dst.fs, mode=0o444 if DST == "local" else None)
            for j, t in enumerate(trees):
                env.write(src.oid_to_path(t.oid), t.as_bytes(), mode=0o444 if SRC == "local" else None)
                if dir_in_dst[j]:
                    env.write(dst.oid_to_path(t.oid), t.as_bytes(), fs=dst.fs, mode=0o444 if DST == "local" else None)
            # distinct trees only (two identical listings are one object)
            uniq = {}
            for j, t in enumerate(trees):
                uniq.setdefault(t.oid, (j, t))
            src_before = env.snapshot(src.path)
            dst_before = env.odb_objects(dst)
            dest_index = env.odb_index() if WITH_INDEX else None
        fail_bits = {FO[i]: (x0, x1, x2)[i] for i in range(NF)}
        for j, t in enumerate(trees):
            fail_bits.setdefault(t.oid, (xd0, xd1, xd2)[j])
        faults = env.faults
        faults.events.clear()
        decided = {}

        class LazyFail:  # failure bit of an upload is only branched on when that upload is attempted
            def __contains__(self, path):
                oid = "".join(path.replace("\\", "/").split("/")[-2:])
                if oid not in decided:
                    decided[oid] = B(fail_bits.get(oid, False))
                return decided[oid]

        faults.fail = LazyFail()
        kinds = {}

        def exc_kind(tp):
            # what kind of error the failing upload reports is symbolic too (decided once per run)
            if "k" not in kinds:
                kinds["k"] = B(ek) if cube("ekind", False) else False
            import errno as _e
            return FileNotFoundError(_e.ENOENT, "injected: source vanished", tp) if kinds["k"] else OSError(_e.EIO, "injected upload failure", tp)

        faults.exc_kind = exc_kind
        faults.abort_at = abort_at if abort_at >= 0 else None
        closure_log = []

        def after(tp, outcome):
            bad, _ = _closure_violations(env, dst, [t for _, t in uniq.values()])
            if bad:
                closure_log.append((len(faults.events), bad))

        faults.after_event = after if PROP == "C04" else None

        if MODE == "closed":
            req = {t.hash_info for _, t in uniq.values()} | {HashInfo("md5", FO[i]) for i in range(NF)}
            kw = {}
        else:
            req = {t.hash_info for _, t in uniq.values()}
            kw = {"shallow": False}
        if cube("label", False):  # callers label requested ids with the path they came from (obj_name): not part of an id's identity
            req = {HashInfo(h.name, h.value, obj_name="ws/" + h.value[:4]) for h in req}
        expanded = {t.oid for _, t in uniq.values()} | ({FO[i] for i in range(NF)} if MODE == "closed" else
                                                         {FO[i] for l in LISTING for i in l})
        res, crashed, exc = None, False, None
        reported_missing = []
        if cube("vstatus", False):
            kw = dict(kw, validate_status=lambda st_: reported_missing.extend(h.value for h in st_.missing))
        try:
            res = transfer(src, dst, req, verify=VERIFY, dest_index=dest_index, cache_odb=src, **kw)
        except Crash:
            crashed = True
        except HarnessGap:
            raise
        except Exception as e:  # noqa: BLE001
            exc = e
        faults.abort_at = None
        faults.exc_kind = None
        bad, have = _closure_violations(env, dst, [t for _, t in uniq.values()])
        src_names = {"".join(k.split("/")) for k, v in src_before.items() if v[0] == "file"}
        new = {o for o in expanded if o in src_names and o not in dst_before}
        missing_both = {o for o in expanded if o not in src_names and o not in dst_before}
        if exc is not None:
            violation("transfer-raised", f"{type(exc).__name__}: {exc}")
        if PROP == "C04":
            if closure_log:
                violation("dir-present-before-its-files", closure_log[0])
            if bad:
                violation("dir-in-dest-without-listed-file", bad)
            if res is not None:
                for _, t in uniq.values():
                    listed = {FO[i] for i in LISTING[_]}
                    undelivered = [o for o in listed if o not in have]
                    if undelivered and t.oid in new:
                        if t.oid in have:
                            violation("dir-in-dest-without-listed-file", (t.oid, undelivered))
                        if t.hash_info not in res.failed:
                            violation("dir-withheld-but-not-reported-failed", (t.oid, undelivered))
            # retry without faults completes the destination
            if exc is None:
                faults.fail = set()
                faults.after_event = None
                try:
                    transfer(src, dst, req, verify=False, dest_index=dest_index, cache_odb=src, **kw)
                except HarnessGap:
                    raise
                except Exception as e:  # noqa: BLE001
                    violation("retry-raised", f"{type(e).__name__}: {e}")
                bad2, have2 = _closure_violations(env, dst, [t for _, t in uniq.values()])
                if bad2:
                    violation("dir-in-dest-without-listed-file-after-retry", bad2)
                for _, t in uniq.values():
                    complete = all(FO[i] in src_names or FO[i] in dst_before for i in LISTING[_])
                    if complete and t.oid not in have2:
                        violation("retry-does-not-complete-destination", t.oid)
                for o in expanded:
                    if not o.endswith(".dir") and o in src_names and o not in have2 and not any(corrupt):
                        violation("retry-does-not-complete-destination", o)
        else:  # C11
          with NoTracing():
            if res is not None:
                tr = {h.value for h in res.transferred}
                fl = {h.value for h in res.failed}
                if tr & fl:
                    violation("result-sets-overlap", sorted(tr & fl))
                if (tr | fl) != new:
                    violation("result-is-not-a-partition-of-new-objects", (sorted(tr), sorted(fl), sorted(new)))
                for o in tr:
                    if o not in have:
                        violation("reported-transferred-but-absent", o)
                    elif hashlib.md5(have[o]).hexdigest() != o.split(".")[0]:
                        violation("reported-transferred-with-wrong-bytes", o)
                for o in expanded:
                    if o not in have and o not in fl and o not in missing_both:
                        violation("absent-object-not-reported", o)
                    if cube("vstatus", False) and o in missing_both and o not in reported_missing and o not in fl:
                        # objects missing on both sides are reported through the status hook (that is how push/fetch warn about them)
                        violation("object-missing-on-both-sides-not-reported", o)
                sent = {"".join(tp.replace("\\", "/").split("/")[-2:]) for tp, _ in faults.events}
                for o in dst_before:
                    if o in tr or o in fl:
                        violation("already-present-object-reported", o)
                    if o in sent:
                        violation("already-present-object-resent", o)
                    if have.get(o) != dst_before[o]:
                        violation("already-present-object-modified", o)
            if env.snapshot(src.path) != src_before:
                violation("source-store-modified", None)
        journal({"src": [int(v) for v in in_src], "dst": [int(v) for v in in_dst], "ddst": [int(v) for v in dir_in_dst],
                 "fail": sorted(k[:6] for k, v in decided.items() if v), "abort": abort_at, "crashed": crashed,
                 "events": len(faults.events), "corrupt": [int(v) for v in corrupt]},
                nontrivial=len(faults.events) > 0)
        return True
    finally:
        env.close()


VERIF_CORRUPT = bool(cube("corrupt", False))


def h_index_history(gc: bool, del0: bool, del1: bool, x1: bool, x2: bool, xb: bool) -> bool:
    """
    post: _
    """
    # two pushes sharing one destination index, with a (closure-preserving) garbage collection of the remote in between:
    # directory A = [f0, f1] is pushed and indexed; the remote then drops A.dir and some of A's files; directory B = [f1, f2], which
    # shares f1 with A, is pushed.  Whatever the index still claims, B.dir may only arrive together with f1 and f2.
    gc, del0, del1 = B(gc), B(del0), B(del1)
    env = make_env()
    try:
        with NoTracing():
            cont = [b"h0", b"h1-shared", b"h2"]
            fo = [hashlib.md5(c).hexdigest() for c in cont]

            def mk(idxs):
                t = Tree()
                for i in idxs:
                    t.add((f"n{i}",), None, HashInfo("md5", fo[i]))
                t.digest()
                return t

            ta, tb = mk([0, 1]), mk([1, 2])
            src = env.base_odb("src")
            dst = {"local": env.local_odb, "base": env.base_odb, "remote": env.remote_odb}[DST]("dst")
            for o, d in list(zip(fo, cont)) + [(ta.oid, ta.as_bytes()), (tb.oid, tb.as_bytes())]:
                env.write(src.oid_to_path(o), d)
            index = env.odb_index()
        try:
            env.faults.fail = set()
            transfer(src, dst, {ta.hash_info, HashInfo("md5", fo[0]), HashInfo("md5", fo[1])}, dest_index=index, cache_odb=src)
        except HarnessGap:
            raise
        except Exception as e:  # noqa: BLE001
            violation("transfer-raised", f"{type(e).__name__}: {e}")
            return True
        with NoTracing():
            if gc:  # the remote is collected by someone else: A goes away as a directory, its files partly
                for o, yes in ((ta.oid, True), (fo[0], del0), (fo[1], del1)):
                    p = dst.oid_to_path(o)
                    if yes and env.exists(p, fs=dst.fs):
                        env.remove(p, fs=dst.fs)
        bits = {fo[1]: x1, fo[2]: x2, tb.oid: xb}
        decided = {}

        class LazyFail:
            def __contains__(self, path):
                oid = "".join(path.replace("\\", "/").split("/")[-2:])
                if oid not in decided:
                    decided[oid] = B(bits.get(oid, False))
                return decided[oid]

        env.faults.fail = LazyFail()
        try:
            res = transfer(src, dst, {tb.hash_info, HashInfo("md5", fo[1]), HashInfo("md5", fo[2])}, dest_index=index, cache_odb=src)
        except HarnessGap:
            raise
        except Exception as e:  # noqa: BLE001
            violation("transfer-raised", f"{type(e).__name__}: {e}")
            return True
        bad, have = _closure_violations(env, dst, [ta, tb])
        with NoTracing():
            if bad:
                violation("dir-in-dest-without-listed-file", bad)
            if tb.oid not in have and tb.hash_info not in res.failed and not any(decided.values()):
                violation("fault-free-push-did-not-deliver-directory", tb.oid)
        journal({"gc": gc, "del": [int(del0), int(del1)], "fail": sorted(k[:6] for k, v in decided.items() if v)}, nontrivial=True)
        return True
    finally:
        env.close()
