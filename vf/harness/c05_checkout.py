"""C05 / C10 - object-level checkout (hashfile/checkout.py, diff.py, db/local.py, utils.py, state.py).

h_noloss (C05): without force, checkout never removes/overwrites workspace bytes that are not recoverable from the cache.
h_links  (C05): link clean-up through the state only removes paths it recorded, unused and unmodified.
h_force  (C10): forced checkout converges, is idempotent, relink yields the configured link type, cache untouched, link record exact.

cube: cls ("local"|"base"), link ("copy"|"hardlink"|"symlink"), prior_link (C10), state (bool), target ("tree"|"file")
"""
import hashlib
import os.path

from dvc_data.hashfile.build import build
from dvc_data.hashfile.checkout import CheckoutError, LinkError, PromptError, checkout
from dvc_data.hashfile.hash_info import HashInfo
from dvc_data.hashfile.transfer import transfer
from dvc_data.hashfile.utils import get_mtime_and_size

from vf.env import make_env
from vf.hlib import B, HarnessGap, NoTracing, cube, journal, pick, violation

CLS = cube("cls", "local")
LINK = cube("link", "copy")
PRIOR_LINK = cube("prior_link", "copy")
WITH_STATE = bool(cube("state", False))
TARGET = cube("target", "tree")
KEYS = ["a", "d/b", "d/e"][: int(cube("nkeys", 2))]
TGT = {"a": b"target-a\n", "d/b": b"", "d/e": b"target-a\n"}  # an empty file and a duplicate of `a`
OLDC = {"a": b"old-cached-a", "d/b": b"old-cached-b", "d/e": b"old-cached-e"}
USER = {"a": b"precious-a", "d/b": b"precious-b", "d/e": b"precious-e"}


def _setup_cache(env, st, with_old=True):
    """stage + transfer the target (and the old cached contents) through the real code, outside tracing"""
    cfg = {"type": [LINK]}
    if st is not None:
        cfg["state"] = st
    cache = env.local_odb("cache", **cfg) if CLS == "local" else env.base_odb("cache", **cfg)
    src = env.p("src")
    for k in KEYS:
        env.write(src + "/" + k, TGT[k])
    if TARGET == "file":
        staging, _, obj = build(cache, src + "/a", env.fs, "md5")
        transfer(staging, cache, {obj.hash_info})
    else:
        staging, _, obj = build(cache, src, env.fs, "md5")
        transfer(staging, cache, {obj.hash_info}, shallow=False)
    if with_old:
        for k in KEYS:
            env.write(env.p("srcold", k.replace("/", "_")), OLDC[k])
            s2, _, o2 = build(cache, env.p("srcold", k.replace("/", "_")), env.fs, "md5")
            transfer(s2, cache, {o2.hash_info})
    return cache, obj


def _files(snap):
    return {k: v for k, v in snap.items() if v[0] in ("file", "link")}


def _content(env, root, rel, entry):
    return entry[1] if entry[0] == "file" else env.read(root + "/" + rel)


def h_noloss(s0: int, s1: int, s2: int, stray: int, relink: bool, prompt_declines: bool) -> bool:
    """
    pre: 0 <= s0 <= 4 and 0 <= s1 <= 4 and 0 <= s2 <= 4 and 0 <= stray <= 2
    post: _
    """
    keys = KEYS if TARGET == "tree" else ["a"]
    prior = [int(cube("s0")) if (i == 0 and cube("s0", None) is not None) else pick(v, 0, 4)
             for i, v in enumerate((s0, s1, s2)[: len(keys)])]
    stray_kind = pick(stray, 0, 2) if TARGET == "tree" else 0  # 0 none, 1 cached content, 2 uncached content
    relink, declines = B(relink), B(prompt_declines)
    env = make_env()
    try:
        with NoTracing():
            st = env.state() if WITH_STATE else None
            cache, obj = _setup_cache(env, st)
            ws = env.p("ws")
            root_is_file = TARGET == "file"
            if not root_is_file:
                env.mkdir(ws)
            for k, s in zip(keys, prior):
                p = ws if root_is_file else ws + "/" + k
                if s == 1:
                    env.write(p, TGT[k])
                elif s == 2:
                    env.write(p, OLDC[k])
                elif s == 3:
                    env.write(p, USER[k])
                elif s == 4:  # kind swapped: a directory holding an uncached file where a file is expected
                    env.write(p + "/inner", USER[k])
            if stray_kind:
                env.write(ws + "/stray", OLDC["a"] if stray_kind == 1 else b"precious-stray")
            if cube("dangling", False) and not root_is_file:
                # a dangling symlink the user left in the workspace directory (it holds no data itself)
                env.symlink(env.p("nowhere"), ws + "/lnk")
            cached = {hashlib.md5(d).hexdigest() for d in env.odb_objects(cache).values()}
            before = env.snapshot(ws) if not root_is_file else ({"": ("file", env.read(ws), 0, 0, 1)} if env.exists(ws) and env.stat(ws)["type"] != "directory" else
                                                                 {"": ("dir", None, 0, 0, 1), **env.snapshot(ws)} if env.exists(ws) else {})
        asked = []

        def prompt(msg):
            asked.append(msg)
            return False

        raised = None
        try:
            checkout(ws, env.fs, obj, cache, force=False, relink=relink, state=st, prompt=prompt if declines else None)
        except (PromptError, CheckoutError, LinkError) as e:
            raised = e
        except HarnessGap:
            raise
        except FileNotFoundError as e:
            if not cube("dangling", False):
                violation("checkout-raised-unexpected", f"{type(e).__name__}: {e}")
                return True
            raised = e  # refusing a workspace that cannot be read completely is an explicit error too; the loss oracle below still applies
        except Exception as e:  # noqa: BLE001
            violation("checkout-raised-unexpected", f"{type(e).__name__}: {e}")
            return True
        with NoTracing():
            if root_is_file:
                after = ({"": ("file", env.read(ws), 0, 0, 1)} if env.exists(ws) and env.stat(ws)["type"] != "directory" else
                         {"": ("dir", None, 0, 0, 1), **env.snapshot(ws)} if env.exists(ws) else {})
            else:
                after = env.snapshot(ws)
            uncached_in_way = False
            for rel, ent in before.items():
                if ent[0] != "file":
                    continue
                data = ent[1]
                now = after.get(rel)
                gone = now is None or now[0] == "dir" or _content(env, ws, rel, now) != data
                recoverable = hashlib.md5(data).hexdigest() in cached
                if gone and not recoverable:
                    violation("unrecoverable-user-data-destroyed", (rel, data[:16], type(raised).__name__))
            # an uncached file that stands in the way must lead to an explicit refusal
            for k, s in zip(keys, prior):
                if s in (3, 4):
                    uncached_in_way = True
            if stray_kind == 2:
                uncached_in_way = True
            refused = isinstance(raised, PromptError) or (cube("dangling", False) and isinstance(raised, FileNotFoundError))
            if uncached_in_way and not refused:
                violation("uncached-data-in-the-way-but-no-refusal", (prior, stray_kind, type(raised).__name__))
        journal({"prior": prior, "stray": stray_kind, "relink": relink, "declines": declines, "raised": type(raised).__name__ if raised else None},
                nontrivial=any(prior) or bool(stray_kind))
        return True
    finally:
        env.close()


# ---------------------------------------------------------------------------------------------------------
def h_history(k: int, v: int, do_gc: bool, relink: bool, first: bool) -> bool:
    """
    pre: 0 <= k <= 2 and 0 <= v <= 2
    post: _
    """
    # two checkouts in one process with the cache changing in between: whatever a first diff learnt about the cache must not be
    # trusted by the second one
    from dvc_data.hashfile.gc import gc

    keys = KEYS
    ki = pick(k, 0, len(keys) - 1)
    variant = pick(v, 0, 2)  # what the user puts back at key ki: 0 the old (formerly cached) bytes, 1 fresh uncached bytes, 2 the target bytes
    do_gc, relink, first = B(do_gc), B(relink), B(first)
    env = make_env()
    try:
        with NoTracing():
            st = env.state() if WITH_STATE else None
            cache, obj = _setup_cache(env, st)
            ws = env.p("ws")
            for kk in keys:
                env.write(ws + "/" + kk, OLDC[kk])
        try:
            if first:
                checkout(ws, env.fs, obj, cache, force=False, relink=False, state=st)
            if do_gc:
                gc(cache, [obj.hash_info], shallow=False)
        except HarnessGap:
            raise
        except Exception as e:  # noqa: BLE001
            violation("history-setup-raised", f"{type(e).__name__}: {e}")
            return True
        with NoTracing():
            p = ws + "/" + keys[ki]
            env.remove(p)
            env.write(p, [OLDC[keys[ki]], USER[keys[ki]], TGT[keys[ki]]][variant])
            cached = {hashlib.md5(d).hexdigest() for d in env.odb_objects(cache).values()}
            before = env.snapshot(ws)
        raised = None
        try:
            checkout(ws, env.fs, obj, cache, force=False, relink=relink, state=st)
        except (PromptError, CheckoutError, LinkError) as e:
            raised = e
        except HarnessGap:
            raise
        except Exception as e:  # noqa: BLE001
            violation("checkout-raised-unexpected", f"{type(e).__name__}: {e}")
            return True
        with NoTracing():
            after = env.snapshot(ws)
            for rel, ent in before.items():
                if ent[0] != "file":
                    continue
                now = after.get(rel)
                gone = now is None or now[0] == "dir" or _content(env, ws, rel, now) != ent[1]
                if gone and hashlib.md5(ent[1]).hexdigest() not in cached:
                    violation("unrecoverable-user-data-destroyed", (rel, ent[1][:16], do_gc, variant))
            data = [OLDC[keys[ki]], USER[keys[ki]], TGT[keys[ki]]][variant]
            if data != TGT[keys[ki]] and hashlib.md5(data).hexdigest() not in cached and not isinstance(raised, PromptError):
                violation("uncached-data-in-the-way-but-no-refusal", (keys[ki], variant, do_gc, type(raised).__name__))
        journal({"key": keys[ki], "variant": variant, "gc": do_gc, "first": first, "relink": relink,
                 "raised": type(raised).__name__ if raised else None}, nontrivial=True)
        return True
    finally:
        env.close()


# ---------------------------------------------------------------------------------------------------------
def h_links(o1: int, o2: int, o3: int, u1: bool, u2: bool, k1: bool, k2: bool, k3: bool) -> bool:
    """
    pre: 0 <= o1 <= 4 and 0 <= o2 <= 4 and 0 <= o3 <= 4
    post: _
    """
    nops = int(cube("nops", 2))
    env = make_env()
    try:
        st = env.state()
        fs = env.fs
        paths = [env.p("w", "p"), env.p("w", "q")]
        kinds = cube("kinds", ["file", "dir"])
        with NoTracing():
            for p, kind in zip(paths, kinds):
                if kind == "dir":
                    env.write(p + "/x", b"x0")
                    env.write(p + "/y", b"y0")
                else:
                    env.write(p, b"p0")
            env.write(env.p("w", "unrelated"), b"never recorded")
            # every tracked file starts on a whole second; a later modification stays inside that second (+0.25 s per edit), as a quick
            # edit on a real disk does
            base = 5000.0
            for p, kind in zip(paths, kinds):
                for f in ([p + "/x", p + "/y"] if kind == "dir" else [p]):
                    _set_mtime(env, f, base)
            edits = [0]
        recorded = {}  # path -> token at recording time (oracle side: content snapshot)

        def snap(p):
            with NoTracing():
                if not env.exists(p):
                    return None
                if env.stat(p)["type"] == "directory":
                    return ("dir", {k: (v[1], env.stat(p + "/" + k)["mtime"]) for k, v in env.snapshot(p).items() if v[0] == "file"}, env.stat(p)["ino"])
                return ("file", env.read(p), env.stat(p)["mtime"], env.stat(p)["ino"])

        trace = []
        for n, (o, which) in enumerate(zip((o1, o2, o3)[:nops], (k1, k2, k3))):
            op = int(cube("o1")) if (n == 0 and cube("o1", None) is not None) else pick(o, 0, 4)
            i = 1 if B(which) else 0
            p = paths[i]
            with NoTracing():
                exists = env.exists(p)
            if op == 0 and exists:  # record
                st.save_link(p, fs)
                recorded[p] = snap(p)
            elif op == 1 and exists:  # modify (content + mtime, within the same whole second)
                with NoTracing():
                    target = p + "/x" if kinds[i] == "dir" else p
                    env.write(target, b"modified")
                    edits[0] += 1
                    _set_mtime(env, target, base + 0.25 * min(edits[0], 3))
            elif op == 2 and exists and kinds[i] == "file":  # replace (new inode)
                with NoTracing():
                    env.replace(p, b"replaced")
            elif op == 3 and exists:  # remove by the user
                with NoTracing():
                    env.remove(p)
            elif op == 4 and kinds[i] == "dir" and exists:  # add a file inside the directory
                with NoTracing():
                    env.write(p + "/z", b"new")
            else:
                op = -1
            trace.append([op, i])
        used = [p for p, u in zip(paths, (u1, u2)) if B(u)]
        with NoTracing():
            before = env.snapshot(env.p("w"))
            now = {p: snap(p) for p in paths}
        try:
            unused = st.get_unused_links(used, fs)
            st.remove_links(unused, fs)
        except HarnessGap:
            raise
        except Exception as e:  # noqa: BLE001
            violation("link-cleanup-raised", f"{type(e).__name__}: {e}")
            return True
        with NoTracing():
            after = env.snapshot(env.p("w"))
            removed_top = {env.p("w", k.split("/")[0]) for k in before if k not in after}
            for p in removed_top:
                if p not in recorded:
                    violation("cleanup-removed-unrecorded-path", p)
                elif p in used:
                    violation("cleanup-removed-used-path", p)
                elif now[p] != recorded[p]:
                    violation("cleanup-removed-modified-path", (p, trace))
            for p in paths:
                if p in recorded and p not in used and now[p] is not None and now[p] == recorded[p] and env.exists(p):
                    violation("unused-unmodified-link-kept", p)
        if cube("passes", 1) == 2:
            # the clean-up runs on every checkout: a second pass over the same workspace must not remove anything the first one spared
            with NoTracing():
                before2 = env.snapshot(env.p("w"))
            try:
                unused2 = st.get_unused_links(used, fs)
                st.remove_links(unused2, fs)
            except HarnessGap:
                raise
            except Exception as e:  # noqa: BLE001
                violation("link-cleanup-raised", f"second pass: {type(e).__name__}: {e}")
                return True
            with NoTracing():
                after2 = env.snapshot(env.p("w"))
                gone2 = {env.p("w", k.split("/")[0]) for k in before2 if k not in after2}
                for p in gone2:
                    if p not in recorded or p in used or now[p] != recorded[p]:
                        violation("cleanup-removed-modified-path", ("second pass", p, trace))
        journal({"trace": trace, "used": len(used), "removed": sorted(os.path.basename(p) for p in removed_top)}, nontrivial=bool(recorded))
        return True
    finally:
        env.close()


# ---------------------------------------------------------------------------------------------------------
def _materialise(env, cache, ws, k, how):
    """put the target content of key k into the workspace the way an earlier checkout with link type `how` would have"""
    oid = hashlib.md5(TGT[k]).hexdigest()
    p = ws + "/" + k
    cpath = cache.oid_to_path(oid)
    if how == "copy" or (how == "hardlink" and len(TGT[k]) == 0):
        env.write(p, TGT[k])
    elif how == "hardlink":
        env.hardlink(cpath, p)
    else:
        env.symlink(cpath, p)


def h_force(s0: int, s1: int, s2: int, stray: bool) -> bool:
    """
    pre: 0 <= s0 <= 2 and 0 <= s1 <= 2 and 0 <= s2 <= 2
    post: _
    """
    prior = [pick(v, 0, 2) for v in (s0, s1, s2)[: len(KEYS)]]  # 0 absent, 1 target content (linked as PRIOR_LINK), 2 other bytes
    stray = B(stray)
    env = make_env()
    try:
        with NoTracing():
            st = env.state() if WITH_STATE else None
            cache, obj = _setup_cache(env, st, with_old=False)
            ws = env.p("ws")
            env.mkdir(ws)
            for k, s in zip(KEYS, prior):
                if s == 1:
                    _materialise(env, cache, ws, k, PRIOR_LINK)
                elif s == 2:
                    env.write(ws + "/" + k, USER[k])
            if stray:
                env.write(ws + "/d/stray", b"stray")
            cache_before = env.odb_objects(cache)
        try:
            r1 = checkout(ws, env.fs, obj, cache, force=True, state=st)
        except HarnessGap:
            raise
        except Exception as e:  # noqa: BLE001
            violation("forced-checkout-raised", f"{type(e).__name__}: {e}")
            return True
        with NoTracing():
            snap1 = env.snapshot(ws)
            files1 = {k: _content(env, ws, k, v) for k, v in _files(snap1).items()}
            if files1 != {k: TGT[k] for k in KEYS}:
                violation("workspace-differs-from-target", (sorted(files1), prior, stray))
        try:
            r2 = checkout(ws, env.fs, obj, cache, force=True, state=st)
        except HarnessGap:
            raise
        except Exception as e:  # noqa: BLE001
            violation("second-checkout-raised", f"{type(e).__name__}: {e}")
            return True
        with NoTracing():
            if r2 is not None:
                violation("second-checkout-not-a-noop", r2)
            if env.snapshot(ws) != snap1:
                violation("second-checkout-changed-workspace", None)
        try:
            checkout(ws, env.fs, obj, cache, force=True, relink=True, state=st)
        except HarnessGap:
            raise
        except Exception as e:  # noqa: BLE001
            violation("relink-checkout-raised", f"{type(e).__name__}: {e}")
            return True
        with NoTracing():
            snap3 = env.snapshot(ws)
            cache_snap = env.snapshot(cache.path)
            for k in KEYS:
                ent = snap3.get(k)
                oid = hashlib.md5(TGT[k]).hexdigest()
                cpath = cache.oid_to_path(oid)
                crel = cpath[len(cache.path) + 1:]
                if ent is None or _content(env, ws, k, ent) != TGT[k]:
                    violation("relink-lost-or-changed-file", k)
                    continue
                if LINK == "copy":
                    if ent[0] != "file" or ent[4] != 1 or ent[3] == cache_snap[crel][3]:
                        violation("relinked-file-is-not-an-independent-copy", (k, ent[0], ent[4]))
                    if CLS == "local" and not (ent[2] & 0o200):
                        violation("copied-file-not-writable", (k, oct(ent[2])))
                elif LINK == "hardlink":
                    if len(TGT[k]) and (ent[0] != "file" or ent[3] != cache_snap[crel][3]):
                        violation("relinked-file-is-not-a-hardlink-to-the-cache", (k, ent[0]))
                elif LINK == "symlink":
                    if ent[0] != "link" or ent[1] != cpath:
                        violation("relinked-file-is-not-a-symlink-to-the-cache", (k, ent[0], ent[1]))
            if env.odb_objects(cache) != cache_before:
                violation("checkout-changed-cache-objects", None)
            if st is not None:
                rel = os.path.relpath(ws, st.root_dir) if env.mode == "real" else ws[len(st.root_dir) + 1:]
                rec = st.links.get(rel) if hasattr(st.links, "get") else None
                if rec is None:
                    violation("link-record-missing", rel)
                else:
                    want = (env.stat(ws)["ino"], get_mtime_and_size(ws, env.fs)[0])
                    if tuple(rec) != want:
                        violation("link-record-does-not-match-workspace", (tuple(rec), want))
        journal({"prior": prior, "stray": stray, "r1": r1}, nontrivial=True)
        return True
    finally:
        env.close()


def _set_mtime(env, path, mtime):
    if env.mode == "model":
        i = env.inner
        i.files[i._resolve(path)].mtime = mtime
    else:
        import os

        sec = int(mtime)
        os.utime(path, ns=(sec * 1_000_000_000, sec * 1_000_000_000 + round((mtime - sec) * 1e9)))
