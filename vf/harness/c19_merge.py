"""C19 - three-way directory merge (hashfile/tree.py::_merge/_diff/merge).

Kernel harness: ancestor/ours/theirs over a fixed key universe (one nested key), each key absent or holding a
*symbolic* hash value (only compared, never hashed), policy from the cube.  Oracle: the per-key three-way rule.
"""
import hashlib
import json
from typing import Optional

from dvc_data.hashfile.hash_info import HashInfo
from dvc_data.hashfile.tree import MergeError, Tree, _merge

from vf.hlib import B, NoTracing, cube, journal, pick, violation

KEYS_ALL = [("a",), ("d", "c"), ("b",), ("d", "e", "f")]
NK = int(cube("nkeys", 2))
KEYS = KEYS_ALL[:NK]
ALLOWED = cube("allowed", None)  # None (default policy) or list of kinds


def _mk(present, vals):
    d = {}
    for k, p, v in zip(KEYS, present, vals):
        if p:
            d[k] = (None, HashInfo("md5", v))
    return d


def _kinds(anc, side):
    kinds = set()
    for k in KEYS:
        a, s = anc.get(k), side.get(k)
        if a is None and s is not None:
            kinds.add("add")
        elif a is not None and s is None:
            kinds.add("remove")
        elif a is not None and s is not None and a != s:
            kinds.add("change")
    return kinds


def _check(anc, our, their, tagsfx=""):
    expected = {}
    conflict = False
    for k in KEYS:
        a, o, t = anc.get(k), our.get(k), their.get(k)
        if o == a:
            r = t
        elif t == a:
            r = o
        elif o == t:
            r = o
        else:
            conflict = True
            r = None
        if r is not None:
            expected[k] = r
    res = None
    try:
        res = _merge(anc, our, their, allowed=ALLOWED)
        outcome = "merged"
    except MergeError:
        outcome = "merge-error"
    except Exception as e:  # noqa: BLE001
        outcome = "crash"
        violation("merge-raises-non-merge-error" + tagsfx, f"{type(e).__name__}: {e}")
    if outcome == "merged":
        if conflict:
            violation("merge-conflict-accepted" + tagsfx, (anc, our, their, res))
        elif res != expected:
            violation("merge-wrong-result" + tagsfx, (anc, our, their, res, expected))
        ko, kt = _kinds(anc, our), _kinds(anc, their)
        if ko and kt:
            allowed = set(ALLOWED or ["add"])
            if not (ko <= allowed and kt <= allowed):
                violation("merge-policy-bypassed" + tagsfx, (sorted(ko), sorted(kt), sorted(allowed)))
    return outcome, res, conflict


def h_merge2(pa0: bool, pa1: bool, po0: bool, po1: bool, pt0: bool, pt1: bool,
             va0: int, va1: int, vo0: int, vo1: int, vt0: int, vt1: int) -> bool:
    """
    post: _
    """
    return _run((pa0, pa1), (po0, po1), (pt0, pt1), (va0, va1), (vo0, vo1), (vt0, vt1))


def h_merge3(pa0: bool, pa1: bool, pa2: bool, po0: bool, po1: bool, po2: bool, pt0: bool, pt1: bool, pt2: bool,
             va0: int, va1: int, va2: int, vo0: int, vo1: int, vo2: int, vt0: int, vt1: int, vt2: int) -> bool:
    """
    post: _
    """
    return _run((pa0, pa1, pa2), (po0, po1, po2), (pt0, pt1, pt2), (va0, va1, va2), (vo0, vo1, vo2), (vt0, vt1, vt2))


def _run(pa, po, pt, va, vo, vt):
    pa, po, pt = [B(x) for x in pa], [B(x) for x in po], [B(x) for x in pt]
    anc, our, their = _mk(pa, va), _mk(po, vo), _mk(pt, vt)
    o1, r1, conflict = _check(anc, our, their)
    o2, r2, _ = _check(anc, their, our, tagsfx="")
    if o1 == "merged" and o2 == "merged" and r1 != r2:
        violation("merge-order-dependent", (anc, our, their, r1, r2))
    # equality pattern per key, concrete by now (the comparisons above branched on it)
    pat = []
    for k in KEYS:
        a, o, t = anc.get(k), our.get(k), their.get(k)
        pat.append([int(a is not None), int(o is not None), int(t is not None),
                    int(B(a == o)), int(B(a == t)), int(B(o == t))])
    journal({"pattern": pat, "outcomes": [o1, o2], "conflict": conflict}, nontrivial=(our != anc or their != anc))
    return True


# ---- API level: load from a store, merge, digest ---------------------------------------------------------
POOL = ["11111111111111111111111111111111", "22222222222222222222222222222222", "33333333333333333333333333333333"]


NPOOL = int(cube("pool", 2))
ANC = cube("anc", [0, 0])


def h_merge_api(o0: int, o1: int, t0: int, t1: int) -> bool:
    """
    pre: 0 <= o0 <= NPOOL and 0 <= o1 <= NPOOL and 0 <= t0 <= NPOOL and 0 <= t1 <= NPOOL
    post: _
    """
    from dvc_objects.fs import MemoryFileSystem
    from dvc_data.hashfile.db import HashFileDB
    from dvc_data.hashfile.tree import merge
    sel = [list(ANC), [pick(o0, 0, NPOOL), pick(o1, 0, NPOOL)], [pick(t0, 0, NPOOL), pick(t1, 0, NPOOL)]]
    keys = KEYS_ALL[:2]
    with NoTracing():  # scenario set-up (not the subject): three listings stored in an object store
        fs = MemoryFileSystem(global_store=False)
        odb = HashFileDB(fs, "/odb")
        infos, dicts = [], []
        for s in sel:
            t = Tree()
            d = {}
            for k, v in zip(keys, s):
                if v:
                    t.add(k, None, HashInfo("md5", POOL[v - 1]))
                    d[k] = POOL[v - 1]
            t.digest()
            odb.add(t.path, t.fs, t.oid)
            infos.append(t.hash_info)
            dicts.append(d)
    anc, our, their = dicts
    expected, conflict = {}, False
    for k in keys:
        a, o, t = anc.get(k), our.get(k), their.get(k)
        r = t if o == a else o if t == a else o if o == t else "CONFLICT"
        if r == "CONFLICT":
            conflict = True
        elif r is not None:
            expected[k] = r
    try:
        merged = merge(odb, infos[0], infos[1], infos[2], allowed=ALLOWED)
    except MergeError:
        journal({"sel": sel, "outcome": "merge-error"}, nontrivial=True)
        return True
    except Exception as e:  # noqa: BLE001
        violation("merge-raises-non-merge-error", f"{type(e).__name__}: {e}")
        journal({"sel": sel, "outcome": "crash-known"}, nontrivial=True)
        return True
    got = {k: hi.value for k, _, hi in merged}
    if conflict:
        violation("merge-conflict-accepted", (sel, got))
    elif got != expected:
        violation("merge-wrong-result", (sel, got, expected))
    canon = json.dumps(sorted(({"md5": v, "relpath": "/".join(k)} for k, v in expected.items()), key=lambda e: e["relpath"]),
                       sort_keys=True).encode()
    if not conflict and merged.oid != hashlib.md5(canon).hexdigest() + ".dir":
        violation("merge-oid-not-canonical", (sel, merged.oid))
    journal({"sel": sel, "outcome": "merged"}, nontrivial=True)
    return True
