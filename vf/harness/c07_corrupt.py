"""C07 - corrupted objects are detected and dropped, never served; intact ones unharmed.

cube: cls ("local"|"base"), kind ("file"|"dir"), query ("check"|"oids_exist"|"status"|"checkout"|"add_verify"), state (bool)
symbolic: tamper pattern (none / truncate / append / rewrite same length / rewrite other length / replace by rename),
          whether the tamperer restores the protected mode, hash-state temperature (cold / entry recorded before the tampering)
"""
import hashlib

from dvc_objects.errors import ObjectFormatError

from dvc_data.hashfile.checkout import CheckoutError, LinkError, PromptError, checkout
from dvc_data.hashfile.hash_info import HashInfo
from dvc_data.hashfile.status import status
from dvc_data.hashfile.tree import Tree

from vf.env import make_env
from vf.hlib import B, HarnessGap, NoTracing, cube, journal, pick, violation

CLS = cube("cls", "local")
KIND = cube("kind", "file")
QUERY = cube("query", "check")
WITH_STATE = bool(cube("state", True))
ORIG = b"original-bytes\n"
OTHER_OK = b"other intact object"


def _tampered(data, t):
    if t == 1:
        return data[: len(data) // 2]
    if t == 2:
        return data + b"X"
    if t in (3, 5):
        return bytes([data[0] ^ 1]) + data[1:]
    if t == 4:
        return b"completely different and longer than before"
    return data


def h_corrupt(tamper: int, restore_mode: bool, warm: bool, relink: bool) -> bool:
    """
    pre: 0 <= tamper <= 5
    post: _
    """
    t = pick(tamper, 0, 5)
    restore = B(restore_mode) if (CLS == "local" and QUERY != "add_verify") else False
    env = make_env()
    try:
        with NoTracing():
            st = env.state() if WITH_STATE else None
            cfg = {"state": st} if st is not None else {}
            cache = env.local_odb("cache", **cfg) if CLS == "local" else env.base_odb("cache", **cfg)
            if KIND == "dir":
                tree = Tree()
                tree.add(("n0",), None, HashInfo("md5", hashlib.md5(OTHER_OK).hexdigest()))
                tree.digest()
                data, oid = tree.as_bytes(), tree.oid
            else:
                data, oid = ORIG, hashlib.md5(ORIG).hexdigest()
            src = env.p("src_obj")
            env.write(src, data)
            env.write(env.p("src_other"), OTHER_OK)
            oid2 = hashlib.md5(OTHER_OK).hexdigest()
        # objects enter the store through the real add (records the hash-state entry: "warm since add")
        cache.add([src, env.p("src_other")], env.fs, [oid, oid2])
        path, path2 = cache.oid_to_path(oid), cache.oid_to_path(oid2)
        if st is not None and not B(warm):
            with NoTracing():
                if hasattr(st.hashes, "table"):
                    st.hashes.table.clear()
                else:
                    st.hashes.clear()
        corrupt_src = None
        if QUERY == "add_verify":
            # a corrupt *source* offered under a name that does not match it, to a verifying store
            with NoTracing():
                env.remove(path)
                corrupt_src = env.p("bad_src")
                env.write(corrupt_src, _tampered(data, t if t else 3))
            tdata = _tampered(data, t if t else 3)
            protected = False
            tampered = True
        else:
            tdata = _tampered(data, t)
            tampered = t != 0
            protected = False
            with NoTracing():
                if tampered:
                    if t == 5:
                        env.replace(path, tdata)
                    else:
                        env.chmod(path, 0o644)
                        env.write(path, tdata)
                    if restore:
                        env.chmod(path, 0o444)
                        protected = True
                else:
                    if CLS == "local" and not restore:
                        env.chmod(path, 0o644)  # intact but unprotected object
        detect_required = tampered and not protected
        outcome = None
        ws = env.p("ws")
        try:
            if QUERY == "check":
                try:
                    cache.check(oid)
                    outcome = "accepted"
                except ObjectFormatError:
                    outcome = "rejected"
            elif QUERY == "oids_exist":
                got = cache.oids_exist([oid, oid2])
                outcome = "accepted" if oid in got else "rejected"
                if oid2 not in got:
                    violation("intact-object-rejected", oid2)
            elif QUERY == "status":
                res = status(cache, {HashInfo("md5", oid), HashInfo("md5", oid2)})
                outcome = "accepted" if HashInfo("md5", oid) in res.exists else "rejected"
                if HashInfo("md5", oid2) not in res.exists:
                    violation("intact-object-rejected", oid2)
            elif QUERY == "checkout":
                from dvc_data.hashfile import load

                try:
                    obj = load(cache, HashInfo("md5", oid))
                except (ObjectFormatError, FileNotFoundError):
                    obj = None
                    outcome = "rejected"
                if obj is not None:
                    try:
                        checkout(ws, env.fs, obj, cache, force=True, relink=B(relink), state=st)
                        outcome = "accepted"
                    except (CheckoutError, FileNotFoundError):
                        outcome = "rejected"
            elif QUERY == "add_verify":
                cache.add(corrupt_src, env.fs, oid, verify=True)
                outcome = "added"
            elif QUERY == "fetch":
                # index-level fetch from a verifying remote that holds a damaged object into a verifying cache
                from dvc_data.index import DataIndex, DataIndexEntry, ObjectStorage
                from dvc_data.index.collect import collect
                from dvc_data.index.fetch import fetch

                with NoTracing():
                    remote = env.remote_odb("rem", verify=True) if CLS == "local" else env.base_odb("rem", verify=True)
                    env.write(remote.oid_to_path(oid), tdata, fs=remote.fs)
                    env.write(remote.oid_to_path(oid2), OTHER_OK, fs=remote.fs)
                    vcache = env.local_odb("vcache", verify=True)
                    idx = DataIndex()
                    idx[("obj",)] = DataIndexEntry(key=("obj",), meta=None, hash_info=HashInfo("md5", oid))
                    idx[("other",)] = DataIndexEntry(key=("other",), meta=None, hash_info=HashInfo("md5", oid2))
                    idx.storage_map.add_cache(ObjectStorage((), vcache))
                    idx.storage_map.add_remote(ObjectStorage((), remote))
                fetch(collect([idx], "remote"))
                outcome = "fetched"
        except HarnessGap:
            raise
        except (PromptError, LinkError) as e:
            violation("query-raised", f"{type(e).__name__}: {e}")
            return True
        except Exception as e:  # noqa: BLE001
            violation("query-raised", f"{type(e).__name__}: {e}")
            return True
        with NoTracing():
            present = env.exists(path)
            cur = env.read(path) if present else None
            if QUERY == "fetch":
                got = env.odb_objects(vcache)
                if oid in got and hashlib.md5(got[oid]).hexdigest() != oid.split(".")[0]:
                    violation("verifying-store-retained-mismatching-object", ("fetch", oid))
                if got.get(oid2) != OTHER_OK:
                    violation("intact-object-not-fetched", oid2)
                if not tampered and got.get(oid) != data:
                    violation("intact-object-not-fetched", oid)
            elif QUERY == "add_verify":
                if present and hashlib.md5(cur).hexdigest() != oid.split(".")[0]:
                    violation("verifying-store-retained-mismatching-object", oid)
            elif QUERY == "checkout":
                if KIND == "file":
                    if env.exists(ws) and env.stat(ws)["type"] != "directory":
                        got = env.read(ws)
                        if got != data and detect_required:
                            violation("corrupt-object-materialised-by-checkout", got[:20])
                        if got != data and not tampered:
                            violation("checkout-wrote-wrong-bytes", got[:20])
                    elif not tampered:
                        violation("intact-object-not-checked-out", outcome)
                elif not tampered and outcome != "accepted":
                    violation("intact-object-rejected", oid)
                elif detect_required and outcome == "accepted" and KIND == "dir":
                    violation("corrupt-directory-object-served", oid)
            else:
                base_existence_only = CLS == "base" and QUERY in ("oids_exist", "status")  # base store: existence query is not an integrity check
                if detect_required and not base_existence_only:
                    if outcome != "rejected":
                        violation("corrupt-object-reported-valid", (QUERY, t))
                    if present:
                        violation("corrupt-object-not-removed", (QUERY, t))
                if not tampered:
                    if outcome != "accepted":
                        violation("intact-object-rejected", oid)
                    if not present or cur != data:
                        violation("intact-object-deleted-or-modified", oid)
                    if CLS == "local" and QUERY in ("check", "oids_exist", "status") and (env.stat(path)["mode"] & 0o777) != 0o444:
                        violation("checked-object-left-writable", oct(env.stat(path)["mode"] & 0o777))
            if env.read(path2) != OTHER_OK:
                violation("intact-object-deleted-or-modified", oid2)
        journal({"tamper": t, "protected": protected, "outcome": outcome}, nontrivial=True)
        return True
    finally:
        env.close()
