"""C08 / H-entry - per-entry classification (index/diff.py::_diff_entry/_diff_meta/_diff_hash_info).

Both entries fully symbolic (presence, Meta fields, hash name/value as unconstrained Optional[str]); options from the cube.
The oracle states only the implications the property gives (it is not a re-implementation of the table).
"""
from typing import Optional

from dvc_data.hashfile.hash_info import HashInfo
from dvc_data.hashfile.meta import Meta
from dvc_data.index.diff import ADD, DELETE, MODIFY, UNCHANGED, _diff_entry
from dvc_data.index.index import DataIndexEntry

from vf.hlib import B, cube, journal, violation

HASH_ONLY = bool(cube("hash_only", False))
META_ONLY = bool(cube("meta_only", False))
SLEN = int(cube("slen", 1))
PRES = cube("pres", None)
FIXNAME = bool(cube("fixname", False))
FIXMD5 = bool(cube("fixmd5", False))
CMP = cube("cmp", None)  # None | "exec" (the key index checkout uses) | "size"


def _cmp_key():
    if CMP == "exec":
        return lambda m: None if m is None else (m.isdir, m.isexec)
    if CMP == "size":
        return lambda m: None if m is None else m.size
    return None


def _opt(isnone, val):
    """Optional field built lazily: the None-ness flag is only branched on when the field is actually built."""
    return None if isnone else val


def _mk(present, has_meta, isdir, sn, size, isexec, cn, md5, has_hi, nn, hname, vn, hval):
    if not present:
        return None
    meta = Meta(isdir=isdir, size=_opt(sn, size), isexec=isexec, md5=_opt(cn, md5)) if has_meta else None
    hi = HashInfo(_opt(nn, hname), _opt(vn, hval)) if has_hi else None
    return DataIndexEntry(key=("k",), meta=meta, hash_info=hi)


def _carried_hash(e):
    if e is None or not e.hash_info or not e.hash_info.value:
        return None
    return (e.hash_info.name, e.hash_info.value)


def _meta_view(e, key):
    m = e.meta if e is not None else None
    if key is not None:
        return key(m)
    return m


def h_entry(p1: bool, m1: bool, d1: bool, sn1: bool, s1: int, x1: bool, cn1: bool, c1: str, h1: bool, nn1: bool, n1: str, vn1: bool, v1: str,
            p2: bool, m2: bool, d2: bool, sn2: bool, s2: int, x2: bool, cn2: bool, c2: str, h2: bool, nn2: bool, n2: str, vn2: bool, v2: str) -> bool:
    """
    pre: len(c1) <= SLEN and len(c2) <= SLEN and len(n1) <= SLEN and len(n2) <= SLEN and len(v1) <= SLEN and len(v2) <= SLEN
    post: _
    """
    if PRES is not None:
        p1, m1, h1, p2, m2, h2 = [bool(v) for v in PRES]
    else:
        p1, m1, h1, p2, m2, h2 = B(p1), B(m1), B(h1), B(p2), B(m2), B(h2)
    if FIXNAME:
        nn1 = nn2 = False
        n1 = n2 = "md5"
    if FIXMD5:
        cn1 = cn2 = True
    A1 = (p1, m1, d1, sn1, s1, x1, cn1, c1, h1, nn1, n1, vn1, v1)
    a = _mk(*A1)
    b = _mk(p2, m2, d2, sn2, s2, x2, cn2, c2, h2, nn2, n2, vn2, v2)
    key = _cmp_key()
    kw = dict(hash_only=HASH_ONLY, meta_only=META_ONLY, meta_cmp_key=key)
    t = _diff_entry(a, b, **kw)
    tr = _diff_entry(b, a, **kw)
    if t not in (ADD, DELETE, MODIFY, UNCHANGED):
        violation("entry-unknown-class", t)
    sw = {ADD: DELETE, DELETE: ADD, MODIFY: MODIFY, UNCHANGED: UNCHANGED}
    if sw[t] != tr:
        violation("entry-swap-asymmetric", (t, tr))
    # self diff
    a2 = _mk(*A1)
    if _diff_entry(a, a2, **kw) != UNCHANGED:
        violation("entry-self-diff-changed", None)
    hash_equal = B(_carried_hash(a) == _carried_hash(b))
    meta_equal = B(_meta_view(a, key) == _meta_view(b, key))
    if t == UNCHANGED:
        if HASH_ONLY and not META_ONLY:
            if not hash_equal:
                violation("entry-hash-change-hidden", None)
        elif META_ONLY:
            if not meta_equal:
                violation("entry-meta-change-hidden", None)
        else:
            if (a is None) != (b is None):
                violation("entry-presence-change-hidden", None)
            if not hash_equal:
                violation("entry-hash-change-hidden", None)
            if not meta_equal:
                violation("entry-meta-change-hidden", None)
    if not HASH_ONLY and not META_ONLY:
        if a is None and b is not None and t != ADD:
            violation("entry-add-misclassified", t)
        if a is not None and b is None and t != DELETE:
            violation("entry-delete-misclassified", t)
        if a is not None and b is not None and hash_equal and meta_equal and (a.meta is None) == (b.meta is None) \
                and t != UNCHANGED:
            violation("entry-equal-reported-changed", t)
        if a is not None and b is not None and a.meta is not None and b.meta is not None and t in (ADD, DELETE):
            # a key that exists, with metadata, on both sides was neither added nor deleted
            violation("entry-present-on-both-sides-classified-one-sided", t)
    journal({"pres": [int(p1), int(m1), int(h1), int(p2), int(m2), int(h2)], "t": t, "he": int(hash_equal), "me": int(meta_equal)},
            nontrivial=True)
    return True
