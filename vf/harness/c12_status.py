"""C12 - status / compare_status exactness and remote-index soundness (hashfile/status.py, db/index.py, transfer.py).

h_status : store contents and the queried id set symbolic; no index; both lookup strategies (exists-per-object for local stores,
           traverse/list for the base store and the traversable remote) via the store-kind cube.
h_index  : histories (cube: sequence of step kinds) over one destination + one shared index:
           T = closed transfer with symbolic upload failures, D = external deletion of a symbolic object, Q = status query with index.
"""
import hashlib

from dvc_data.hashfile.hash_info import HashInfo
from dvc_data.hashfile.status import compare_status, status
from dvc_data.hashfile.transfer import transfer
from dvc_data.hashfile.tree import Tree

from vf.env import make_env
from vf.hlib import B, HarnessGap, NoTracing, cube, journal, pick, violation

def _zero_prefixed():
    """a content whose md5 starts with '00': it lands in the prefix the size estimation of a traversable remote lists"""
    i = 0
    while True:
        c = b"z%d" % i
        if hashlib.md5(c).hexdigest().startswith("00"):
            return c
        i += 1


CONT = [b"s0", _zero_prefixed() if cube("zero", False) else b"s1\n", b""]
FO = [hashlib.md5(c).hexdigest() for c in CONT]
LISTING = cube("listing", [[0, 1]])
NF = int(cube("nfiles", 2))
CLS = cube("cls", "base")
SHALLOW = bool(cube("shallow", True))


def _mktree(idxs):
    t = Tree()
    for n, i in enumerate(idxs):
        t.add((f"n{n}",), None, HashInfo("md5", FO[i]))
    t.digest()
    return t


def _odb(env, kind, name):
    odb = {"local": env.local_odb, "base": env.base_odb, "remote": env.remote_odb}[kind](name)
    mode = cube("lookup", None)
    if mode and kind != "local":
        # scale the remote-size heuristics of ObjectDB.oids_exist so that its other strategies are reached with a handful of objects:
        # "exists": estimated size large relative to the query -> per-object existence for what the '00' listing did not show;
        # "traverse": forced prefix-by-prefix traversal (255 prefix listings)
        odb.fs.LIST_OBJECT_PAGE_SIZE = 1
        if mode == "traverse":
            odb.fs._ALWAYS_TRAVERSE = True
    return odb


def _put(env, odb, oid, data):
    env.write(odb.oid_to_path(oid), data, fs=odb.fs, mode=0o444 if type(odb).__name__ == "LocalHashFileDB" else None)


def h_status(a0: bool, a1: bool, a2: bool, ad0: bool, ad1: bool, b0: bool, b1: bool, b2: bool, bd0: bool, bd1: bool,
             q0: bool, q1: bool, q2: bool, qd0: bool, qd1: bool) -> bool:
    """
    post: _
    """
    ND = len(LISTING)
    ina = [B(v) for v in (a0, a1, a2)[:NF]] + [B(v) for v in (ad0, ad1)[:ND]]
    inb = [B(v) for v in (b0, b1, b2)[:NF]] + [B(v) for v in (bd0, bd1)[:ND]]
    q = [B(v) for v in (q0, q1, q2)[:NF]] + [B(v) for v in (qd0, qd1)[:ND]]
    env = make_env()
    try:
        with NoTracing():
            trees = [_mktree(l) for l in LISTING]
            ids = FO[:NF] + [t.oid for t in trees]
            data = CONT[:NF] + [t.as_bytes() for t in trees]
            A, Bs = _odb(env, CLS, "A"), _odb(env, cube("cls_b", CLS), "B")
            cache = env.base_odb("trees")  # holds every directory object (for expansion)
            for t in trees:
                _put(env, cache, t.oid, t.as_bytes())
            for i, oid in enumerate(ids):
                if ina[i]:
                    _put(env, A, oid, data[i])
                if inb[i]:
                    _put(env, Bs, oid, data[i])
            query = {HashInfo("md5", oid) for i, oid in enumerate(ids) if q[i]}
            have_a, have_b = set(env.odb_objects(A)), set(env.odb_objects(Bs))
            expanded = {h.value for h in query}
            if not SHALLOW:
                for j, t in enumerate(trees):
                    if q[NF + j]:
                        expanded |= {FO[i] for i in LISTING[j]}
        if not query:
            return True
        try:
            st = status(A, query, cache_odb=cache, shallow=SHALLOW)
            cs = compare_status(A, Bs, query, cache_odb=cache, shallow=SHALLOW) if SHALLOW else None
        except HarnessGap:
            raise
        except Exception as e:  # noqa: BLE001
            violation("status-raised", f"{type(e).__name__}: {e}")
            return True
        with NoTracing():
            ex, mi = {h.value for h in st.exists}, {h.value for h in st.missing}
            if ex & mi or (ex | mi) != expanded:
                violation("status-not-a-partition-of-the-query", (sorted(ex), sorted(mi), sorted(expanded)))
            if ex != expanded & have_a:
                violation("status-disagrees-with-store", (sorted(ex), sorted(expanded & have_a)))
            if cs is not None:
                ok, missing, new, deleted = [{h.value for h in s} for s in (cs.ok, cs.missing, cs.new, cs.deleted)]
                parts = [ok, missing, new, deleted]
                if sum(len(p) for p in parts) != len(ok | missing | new | deleted) or (ok | missing | new | deleted) != expanded:
                    violation("compare-status-not-a-partition", [sorted(p) for p in parts])
                if ok != expanded & have_a & have_b or new != (expanded & have_a) - have_b or \
                        deleted != (expanded & have_b) - have_a or missing != expanded - have_a - have_b:
                    violation("compare-status-inconsistent-with-stores", [sorted(p) for p in parts])
        journal({"a": [int(v) for v in ina], "b": [int(v) for v in inb], "q": [int(v) for v in q]}, nontrivial=len(query) > 1)
        return True
    finally:
        env.close()


STEPS = cube("steps", "TQ")


def h_index(x0: bool, x1: bool, xd0: bool, xd1: bool, y0: bool, y1: bool, yd0: bool, yd1: bool, k1: int, k2: int) -> bool:
    """
    pre: 0 <= k1 <= 3 and 0 <= k2 <= 3
    post: _
    """
    ND = len(LISTING)
    env = make_env()
    try:
        with NoTracing():
            trees = [_mktree(l) for l in LISTING]
            ids = FO[:NF] + [t.oid for t in trees]
            data = CONT[:NF] + [t.as_bytes() for t in trees]
            src = env.base_odb("src")
            dst = _odb(env, CLS, "dst")
            for oid, d in zip(ids, data):
                _put(env, src, oid, d)
            index = env.odb_index()
            req = {HashInfo("md5", o) for o in ids}
            ever = set()
        fail_sets = [dict(zip(ids, (x0, x1)[:NF] + (xd0, xd1)[:ND])), dict(zip(ids, (y0, y1)[:NF] + (yd0, yd1)[:ND]))]
        ks = [k1, k2]
        nT = nD = 0
        trace = []
        for step in STEPS:
            if step == "T":
                bits = fail_sets[min(nT, 1)]
                nT += 1
                decided = {}

                class LazyFail:
                    def __contains__(self, path, bits=bits, decided=decided):
                        oid = "".join(path.replace("\\", "/").split("/")[-2:])
                        if oid not in decided:
                            decided[oid] = B(bits.get(oid, False))
                        return decided[oid]

                env.faults.fail = LazyFail()
                env.faults.events.clear()
                try:
                    transfer(src, dst, req, dest_index=index, cache_odb=src)
                except HarnessGap:
                    raise
                except Exception as e:  # noqa: BLE001
                    violation("transfer-raised", f"{type(e).__name__}: {e}")
                    return True
                trace.append(["T", sorted(o[:4] for o, v in decided.items() if v)])
            elif step == "D":
                k = pick(ks[min(nD, 1)], 0, len(ids) - 1)
                nD += 1
                with NoTracing():
                    p = dst.oid_to_path(ids[k])
                    if env.exists(p, fs=dst.fs):
                        env.remove(p, fs=dst.fs)
                trace.append(["D", k])
            elif step == "Q":
                with NoTracing():
                    have_before = set(env.odb_objects(dst))
                    indexed_dirs_before = set(index.dir_hashes())
                try:
                    st = status(dst, req, index=index, cache_odb=src)
                except HarnessGap:
                    raise
                except Exception as e:  # noqa: BLE001
                    violation("status-raised", f"{type(e).__name__}: {e}")
                    return True
                with NoTracing():
                    for h in st.exists:
                        if h.isdir and h.value not in have_before:
                            violation("absent-directory-reported-existing", h.value)
                    vanished = indexed_dirs_before - have_before
                    if vanished and (set(index.dir_hashes()) & vanished):
                        violation("stale-index-not-cleared", sorted(vanished))
                trace.append(["Q", len(st.exists)])
            with NoTracing():
                have = env.odb_objects(dst)
                ever |= set(have)
                listed = set()
                for j, t in enumerate(trees):
                    if t.oid in have:
                        listed |= {FO[i] for i in LISTING[j]}
                for oid in list(index):
                    if oid not in ever and oid not in listed:
                        violation("index-holds-undelivered-object", (oid, trace))
        journal({"steps": STEPS, "trace": trace}, nontrivial=True)
        return True
    finally:
        env.close()
