"""C13 - cached and carried-over hashes are never stale (hashfile/state.py, cache.py, hash.py, build.py, index/update.py, save.py).

A file goes through a symbolic history of mutations, each of which changes *exactly one* component of the validity token
(size only / mtime only / inode only - the weakest form of the property's assumption), plus touch / delete / re-create.
After every mutation a query (kind = cube) must return the hash of the file's current bytes.
Poisoned-entry variants: a stored entry with a valid token but a wrong hash value, recorded for another algorithm / by a newer
format version / without version (legacy md5) / or the query going through a non-local filesystem: it must never be served.
"""
import hashlib
import json

from dvc_data.hashfile.build import _get_hashes, build
from dvc_data.hashfile.hash import hash_file
from dvc_data.hashfile.hash_info import HashInfo
from dvc_data.hashfile.state import _checksum

from vf.env import make_env
from vf.hlib import B, HarnessGap, NoTracing, cube, journal, pick, violation

NOPS = int(cube("nops", 2))
QUERY = cube("query", "single")  # single | many | build | md5 | update
VARIANT = cube("variant", "none")  # none | other-alg | newer-version | legacy | nonlocal
LIMIT = int(cube("limit", 2))  # scaled SQLITE_MAX_VARIABLE_NUMBER for the batched lookup
NAME = cube("name", "md5")
L1 = [b"a", b"b"]
L2 = [b"cc", b"dd"]


def _fresh(data, name=NAME):
    if name == "md5-dos2unix":  # legacy algorithm: the (short, NUL-free, printable) contents used here are text: CRLF -> LF, then md5
        return hashlib.md5(data.replace(b"\r\n", b"\n")).hexdigest()
    return hashlib.new(name, data).hexdigest()


def h_stale(c0: bool, o1: int, o2: int, o3: int, s1: bool, s2: bool, s3: bool, q1: bool, q2: bool) -> bool:
    """
    pre: 0 <= o1 <= 5 and 0 <= o2 <= 5 and 0 <= o3 <= 5
    post: _
    """
    env = make_env()
    try:
        st = env.state()
        if hasattr(st.hashes, "table"):
            st.hashes.SQLITE_MAX_VARIABLE_NUMBER = LIMIT
            st.hashes.SQLITE_LIMIT = LIMIT
        fs = env.fs
        d = env.p("d")
        f, g, h = d + "/f", d + "/g", d + "/h"
        with NoTracing():
            env.mkdir(d)
        first = L1[0]
        with NoTracing():
            env.write(f, first)
            env.write(g, b"stable")
            env.write(h, b"other")
        data = first
        odb = env.local_odb("cache", state=st)

        def prime():
            """record the current file in the cache through the real code"""
            for p in (f, g, h):
                if env.exists(p):
                    hash_file(p, fs, NAME, state=st)

        def poison():
            if VARIANT == "none":
                return
            with NoTracing():
                if not env.exists(f):
                    return
                info = fs.info(f)
                entry = {"version": st.HASH_VERSION, "checksum": _checksum(info), "size": info["size"],
                         "hash_info": {NAME: "0" * 32}}
                if VARIANT == "other-alg":
                    entry["hash_info"] = {"sha1" if NAME != "sha1" else "md5": "0" * 32}
                elif VARIANT == "newer-version":
                    entry["version"] = st.HASH_VERSION + 1
                elif VARIANT == "legacy":
                    del entry["version"]
                    entry["hash_info"] = {"md5": "0" * 32}
                elif VARIANT == "nonlocal":
                    pass  # a (wrong) entry keyed by the same path; the query goes through a non-local fs
                st.hashes[f] = json.dumps(entry)

        def query(tag):
            if not env.exists(f):
                return
            want = _fresh(data)
            qfs = fs
            if VARIANT == "nonlocal":
                from dvc_objects.fs.base import FileSystem  # plain FileSystem over the same inner fs: not a LocalFileSystem

                class NonLocal(FileSystem):
                    protocol = "modelremote"
                    PARAM_CHECKSUM = "md5"

                qfs = NonLocal(fs=fs.fs)
                qfs.jobs = qfs.hash_jobs = 1
            try:
                if QUERY == "single" or VARIANT == "nonlocal":
                    _, hi = hash_file(f, qfs, NAME, state=st)
                    got = {f: hi.value}
                elif QUERY == "many":
                    paths = [g, f, h, d + "/missing"][: 2 + LIMIT]
                    paths = [p for p in paths if env.exists(p)]
                    infos = {p: fs.info(p) for p in paths}
                    res = _get_hashes(paths, fs, NAME, infos, state=st)
                    got = {p: v[1].value for p, v in res.items()}
                    for p in paths:  # batch == single
                        _, hi1 = hash_file(p, fs, NAME, state=st)
                        if hi1.value != got.get(p):
                            violation("batch-and-single-lookups-disagree", (tag, p))
                elif QUERY == "build":
                    _, _, obj = build(odb, d, fs, NAME if NAME == "md5" else "md5", dry_run=True)
                    got = {d + "/" + "/".join(k): hi.value for k, _, hi in obj}
                    want = _fresh(data, "md5")
                elif QUERY == "md5":
                    from dvc_data.index.build import build as ibuild
                    from dvc_data.index.save import md5 as imd5

                    idx = imd5(ibuild(d, fs), state=st, name="md5")
                    got = {d + "/" + "/".join(k): (e.hash_info.value if e.hash_info else None) for k, e in idx.items() if not (e.meta and e.meta.isdir)}
                    want = _fresh(data, "md5")
                else:
                    raise HarnessGap(QUERY)
            except HarnessGap:
                raise
            except Exception as e:  # noqa: BLE001
                violation("query-raised", (tag, f"{type(e).__name__}: {e}"))
                return
            if got.get(f) != want:
                violation("stale-hash-served", (tag, QUERY, VARIANT, got.get(f), want))
            if g in got and got[g] != _fresh(b"stable", "md5" if QUERY in ("build", "md5") else NAME):
                violation("wrong-hash-for-unchanged-file", tag)

        # carried-over hashes (index update): snapshot an index with hashes before the history
        old_idx = None
        if QUERY == "update":
            from dvc_data.index.build import build as ibuild
            from dvc_data.index.save import md5 as imd5

            old_idx = imd5(ibuild(d, fs), name="md5")
        if QUERY == "race":
            # the file is rewritten after the hashing code has read it and before it records the result (the caller supplied the
            # stat taken before the read): whatever gets recorded must not vouch for the new bytes
            warm = B(c0)  # a (by now outdated) entry for the file exists / the cache has never seen it
            kind = pick(o1, 0, 2)
            with NoTracing():
                if warm:
                    hash_file(f, fs, NAME, state=st)
                    data = _flip(data)
                    env.write(f, data)
            fired = []

            def rewrite():
                nonlocal data
                fired.append(1)
                if kind == 0:  # same size: only mtime moves
                    data = _flip(data)
                    env.write(f, data)
                elif kind == 1:  # other size
                    data = data + b"+"
                    env.write(f, data)
                else:  # atomic replacement, same size, mtime copied: only the inode moves
                    info0 = env.stat(f)
                    data = _flip(data)
                    env.replace(f, data)
                    _set_mtime(env, f, info0["mtime"])

            try:
                env.on_read_once(rewrite)
                hash_file(f, fs, NAME, state=st, info=fs.info(f))
                _, hi2 = hash_file(f, fs, NAME, state=st)
            except HarnessGap:
                raise
            except Exception as e:  # noqa: BLE001
                violation("query-raised", ("race", f"{type(e).__name__}: {e}"))
                return True
            if not fired:
                raise HarnessGap("the rewrite hook did not fire")
            if hi2.value != _fresh(data):
                violation("stale-hash-served", ("rewritten-while-hashing", kind, hi2.value, _fresh(data)))
            journal({"query": "race", "warm": warm, "kind": kind}, nontrivial=True)
            return True
        prime()
        poison()
        if QUERY != "update":
            query("t0")
        ops = []
        maxlen = [2]
        for step, (o, same_alt, q) in enumerate(zip((o1, o2, o3)[:NOPS], (s1, s2, s3), (q1, q2, True))):
            with NoTracing():
                exists = env.exists(f)
            fixed = cube("op%d" % (step + 1), None)
            if fixed is not None:
                op = int(fixed) if (exists or int(fixed) == 5) else -1
            elif exists:
                op = pick(o, 0, 4)
            else:
                op = 5 if B(o >= 3) else -1
            alt = B(same_alt) if op in (0, 5) else False  # only these operations have two content variants
            with NoTracing():
                if op == 0 and exists:  # only the size changes (to a size never used before); mtime and inode preserved
                    info = env.stat(f)
                    maxlen[0] += 1
                    data = (b"x" if alt else b"y") * maxlen[0]
                    env.write(f, data)
                    _set_mtime(env, f, info["mtime"])
                elif op == 1 and exists:  # same size, different bytes: only mtime changes
                    data = _flip(data)
                    env.write(f, data)
                elif op == 2 and exists:  # atomic replacement, same size, mtime copied: only the inode changes
                    info = env.stat(f)
                    data = _flip(data)
                    env.replace(f, data)
                    _set_mtime(env, f, info["mtime"])
                elif op == 3 and exists:  # touch
                    env.touch(f)
                elif op == 4 and exists:  # delete
                    env.remove(f)
                elif op == 5 and not exists:  # re-create
                    data = (L1 if alt else L2)[0]
                    env.write(f, data)
                else:
                    op = -1
            ops.append(op)
            if QUERY == "update":
                continue
            if step == NOPS - 1 or B(q):
                query(f"after-op{step + 1}")
        if QUERY == "update" and env.exists(f):
            from dvc_data.index.build import build as ibuild
            from dvc_data.index.update import update

            new_idx = ibuild(d, fs)
            try:
                update(new_idx, old_idx)
            except HarnessGap:
                raise
            except Exception as e:  # noqa: BLE001
                violation("update-raised", f"{type(e).__name__}: {e}")
                return True
            e = new_idx[("f",)]
            if e.hash_info is not None and e.hash_info.value != _fresh(data, "md5"):
                violation("stale-hash-carried-over", (ops, e.hash_info.value))
            eg = new_idx[("g",)]
            if eg.hash_info is not None and eg.hash_info.value != _fresh(b"stable", "md5"):
                violation("wrong-hash-for-unchanged-file", "update")
        journal({"first": len(first), "ops": ops, "query": QUERY, "variant": VARIANT}, nontrivial=any(o >= 0 for o in ops))
        return True
    finally:
        env.close()


def _flip(data):
    return (b"q" if data[:1] != b"q" else b"r") + data[1:] if data else b""


def _set_mtime(env, path, mtime):
    if env.mode == "model":
        i = env.inner
        i.files[i._resolve(path)].mtime = mtime
    else:
        import os

        sec = int(mtime)  # integer arithmetic: mtime * 1e9 in floating point is only accurate to ~256 ns at today's epoch values
        os.utime(path, ns=(sec * 1_000_000_000, sec * 1_000_000_000 + round((mtime - sec) * 1e9)))


# ---------------------------------------------------------------------------------------------------------
LEGACY_FILES = {"t.txt": [b"one\r\ntwo\r\n", b"one\ntwo\n"], "s/u.txt": [b"x\r\n", b"\r\n\r\n"]}


def h_legacy(v0: bool, v1: bool, batched: bool, kk: bool, relink: bool) -> bool:
    """
    post: _
    """
    # hashes recorded by a checkout out of a legacy (md5-dos2unix) store sharing the state: a later md5 query for the checked-out files
    # must return the md5 of their bytes (entries recorded for the legacy algorithm are not md5 hits)
    from dvc_data.hashfile import load
    from dvc_data.hashfile.checkout import checkout
    from dvc_data.hashfile.transfer import transfer

    sel = [1 if B(v0) else 0, 1 if B(v1) else 0]
    files = {k: v[s] for (k, v), s in zip(LEGACY_FILES.items(), sel)}
    env = make_env()
    try:
        st = env.state()
        fs = env.fs
        with NoTracing():
            for k, v in files.items():
                env.write(env.p("src", k), v)
            legacy = env.local_odb("legacy", hash_name="md5-dos2unix", state=st, type=[cube("link", "copy")])
            staging, _, obj = build(legacy, env.p("src"), fs, "md5-dos2unix")
            transfer(staging, legacy, {obj.hash_info}, shallow=False)
        ws = env.p("ws")
        try:
            tree = load(legacy, obj.hash_info)
            checkout(ws, fs, tree, legacy, state=st, relink=B(relink))
            which = "s/u.txt" if B(kk) else "t.txt"
            path = ws + "/" + which
            if B(batched):
                paths = [ws + "/t.txt", ws + "/s/u.txt"]
                res = _get_hashes(paths, fs, "md5", {p: fs.info(p) for p in paths}, state=st)
                got = res[path][1].value
            else:
                got = hash_file(path, fs, "md5", state=st)[1].value
        except HarnessGap:
            raise
        except Exception as e:  # noqa: BLE001
            violation("query-raised", ("legacy-checkout", f"{type(e).__name__}: {e}"))
            return True
        with NoTracing():
            data = env.read(path)
            if data != files[which]:
                violation("checkout-changed-bytes", which)
            if got != hashlib.md5(data).hexdigest():
                violation("stale-hash-served", ("after-legacy-checkout", which, got, hashlib.md5(data).hexdigest()))
        journal({"sel": sel, "batched": bool(batched), "which": which}, nontrivial=True)
        return True
    finally:
        env.close()
