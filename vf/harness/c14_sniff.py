"""C14 / H-sniff (Engine B) - the real istextfile.istextblock executed on z3-valued bytes with exact Float64 division,
proved equal to the independent definition for every content of a given length; plus the threshold lemma
float(n)/L <= 0.30  <=>  10*n <= 3*L  for all 0 <= n <= L <= bound (which lets Engine-A harnesses use the integer form).

Run as a job:  python -m vf.harness.c14_sniff --func sniff --timeout T      (VF_CUBE = {"len": L} or {"lemma": B})
Replay:        vf.replay --module vf.harness.c14_sniff --func sniff --args '{"block_hex": "..."}'
"""
import argparse
import builtins
import json
import sys
import time

TEXT = set(range(32, 127)) | {10, 13, 9, 12, 8}


def definition(block: bytes) -> bool:
    """independent statement: empty => text; NUL => binary; else text iff at most 30% of the bytes are outside
    printable ASCII + \\n \\r \\t \\f \\b (exact rational comparison)"""
    if not block:
        return True
    if 0 in block:
        return False
    n = sum(1 for b in block if b not in TEXT)
    return 10 * n <= 3 * len(block)


def sniff(block_hex: str = "", n: int = -1, L: int = -1) -> bool:
    """concrete replay entry: the real function against the definition (or the lemma instance n, L)"""
    from vf.hlib import violation
    import dvc_data.hashfile.istextfile as I

    if n >= 0:
        if (float(n) / L <= 0.30) != (10 * n <= 3 * L):
            violation("float-threshold-differs-from-rational-threshold", (n, L))
        return True
    block = bytes.fromhex(block_hex)
    if bool(I.istextblock(block)) != definition(block):
        violation("text-sniffing-differs-from-definition", block_hex)
    return True


def run_len(L, timeout):
    import z3
    import dvc_data.hashfile.istextfile as I
    from vf import symshim as S

    elems = [z3.BitVec(f"b{i}", 8) for i in range(L)]
    nontext = z3.BitVecVal(0, 16)
    for e in elems:
        nontext = nontext + z3.If(z3.Or([e == t for t in sorted(TEXT)]), z3.BitVecVal(0, 16), z3.BitVecVal(1, 16))
    hasnul = z3.Or([e == 0 for e in elems]) if L else z3.BoolVal(False)
    ref = z3.BoolVal(True) if L == 0 else z3.And(z3.Not(hasnul), z3.ULE(10 * nontext, z3.BitVecVal(3 * L, 16)))
    real_len, real_float = builtins.len, builtins.float

    def s_len(x):
        return S.SInt(x.symlen()) if isinstance(x, S.SBytes) and not x._plain() else real_len(x)

    def s_float(x):
        return S.SFloat(z3.fpSignedToFP(z3.RNE(), z3.ZeroExt(16, x.e), z3.Float64())) if isinstance(x, S.SInt) else real_float(x)

    # the real module's TEXT_CHARS must be what the definition says (regenerated from the live module on every run)
    if set(I.TEXT_CHARS) != TEXT:
        pass  # not an error by itself: the equivalence query below decides
    I.len, I.float = s_len, s_float
    paths = 0
    t0 = time.time()
    try:
        def once():
            out = I.istextblock(S.SBytes(elems))
            return out.e if isinstance(out, S.SBool) else z3.BoolVal(bool(out))

        for pc, out in S.explore(once, timeout):
            paths += 1
            s = z3.Solver()
            s.set("timeout", int(max(1, timeout - (time.time() - t0)) * 1000))
            s.add(*pc)
            s.add(out != ref)
            t = time.time()
            r = s.check()
            S.CTX.solver_s += time.time() - t
            S.CTX.queries += 1
            if str(r) == "sat":
                m = s.model()
                block = bytes(m.eval(e, model_completion=True).as_long() for e in elems)
                return {"verdict": "refuted", "cex": {"block_hex": block.hex()}, "paths": paths}
            if str(r) != "unsat":
                return {"verdict": "unknown", "message": f"solver returned {r} for length {L}", "paths": paths}
    except S.Unsupported as e:
        return {"verdict": "error", "message": f"Engine B does not support: {e}"}
    except TypeError as e:
        # the function under analysis used an operation the z3-valued duck types do not implement: inconclusive, never a verdict
        return {"verdict": "error", "message": f"Engine B does not support: {type(e).__name__}: {e}"}
    except TimeoutError:
        return {"verdict": "unknown", "message": "timeout", "paths": paths}
    finally:
        del I.len, I.float
    return {"verdict": "confirmed", "paths": paths}


def run_lemma(bound, timeout):
    import z3
    from vf import symshim as S

    # the constant is read from the live function's code object
    import dvc_data.hashfile.istextfile as I

    consts = [c for c in I.istextblock.__code__.co_consts if isinstance(c, float)]
    thr = consts[0] if consts else 0.30
    bits = max(11, bound.bit_length() + 1)
    n, L = z3.BitVec("n", bits), z3.BitVec("L", bits)
    f = z3.fpDiv(z3.RNE(), z3.fpSignedToFP(z3.RNE(), z3.ZeroExt(32 - bits, n), z3.Float64()),
                 z3.fpSignedToFP(z3.RNE(), z3.ZeroExt(32 - bits, L), z3.Float64()))
    lhs = z3.fpLEQ(f, z3.FPVal(thr, z3.Float64()))
    rhs = z3.ULE(10 * z3.ZeroExt(8, n), 3 * z3.ZeroExt(8, L))
    s = z3.Solver()
    s.set("timeout", int(timeout * 1000))
    s.add(z3.ULE(n, L), z3.UGE(L, 1), z3.ULE(L, bound), lhs != rhs)
    t = time.time()
    r = s.check()
    S.CTX.solver_s += time.time() - t
    S.CTX.queries += 1
    if str(r) == "sat":
        m = s.model()
        return {"verdict": "refuted", "cex": {"n": m[n].as_long(), "L": m[L].as_long()}, "paths": 1}
    if str(r) == "unsat":
        from vf.hlib import CUBE

        if CUBE.get("cvc5"):
            # second solver on the same query (SMT-LIB2 text), as a cross-check of the encoding
            import os
            import subprocess
            import tempfile

            d = os.environ.get("VERIF_SCRATCH_DIR") or "/var/tmp"
            fd, path = tempfile.mkstemp(suffix=".smt2", dir=d)
            with os.fdopen(fd, "w") as f:
                f.write("(set-logic QF_BVFP)\n" + s.to_smt2().replace("(set-logic ALL)", ""))
            try:
                p = subprocess.run(["cvc5", "--lang", "smt2", path], capture_output=True, text=True, timeout=timeout)
                out = p.stdout.strip().splitlines()
                S.CTX.queries += 1
                if "(error" in p.stdout or not out or out[0] != "unsat":
                    return {"verdict": "unknown", "message": f"cvc5 disagrees or failed: {p.stdout[:200]} {p.stderr[:200]}", "paths": 1}
            except subprocess.TimeoutExpired:
                return {"verdict": "unknown", "message": "cvc5 timeout", "paths": 1}
            finally:
                os.unlink(path)
        return {"verdict": "confirmed", "paths": 1}
    return {"verdict": "unknown", "message": f"solver returned {r}", "paths": 1}


def main():
    ap = argparse.ArgumentParser()
    ap.add_argument("--func", default="sniff")
    ap.add_argument("--timeout", type=float, default=120)
    a = ap.parse_args()
    from vf import symshim as S
    from vf.hlib import CUBE

    if "lemma" in CUBE:
        res = run_lemma(int(CUBE["lemma"]), a.timeout)
        desc = {"lemma_bound": CUBE["lemma"]}
    else:
        res = run_len(int(CUBE.get("len", 4)), a.timeout)
        desc = {"len": CUBE.get("len", 4)}
    res.update({"queries": S.CTX.queries, "solver_s": round(S.CTX.solver_s, 2), "nontrivial": res.get("paths", 0),
                "distinct": [dict(desc, path=i) for i in range(res.get("paths", 0))][:50], "samples": [desc]})
    print(json.dumps(res))


if __name__ == "__main__":
    main()
