"""C20 - serialisation round trips (Meta / HashInfo / DataIndexEntry dict forms, '/'-joined keys, listing with
metadata, JSON / key-value / serialised-trie index forms).

Field values are genuinely symbolic where the code only copies/compares them; the textual forms (json) realise
values at the C boundary, so those harnesses draw values from small explicit sets by symbolic selector.
"""
import io
import json

from dvc_data.hashfile.hash_info import HashInfo
from dvc_data.hashfile.meta import Meta
from dvc_data.hashfile.tree import Tree
from dvc_data.index.index import DataIndex, DataIndexEntry

from vf.hlib import B, NoTracing, cube, journal, pick, violation

NAMES = [None, "", "md5", "sha256", "md5-dos2unix", "etag"]


def _opt(flag, v):
    return None if flag else v


def h_meta(isdir: bool, sn: bool, size: int, nn: bool, nfiles: int, isexec: bool, vn: bool, version_id: str, en: bool, etag: str,
           cn: bool, checksum: str, mn: bool, md5: str, rn: bool, remote: str) -> bool:
    """
    pre: len(version_id) <= 1 and len(etag) <= 1 and len(checksum) <= 1 and len(md5) <= 1 and len(remote) <= 1
    post: _
    """
    fix = cube("nonefix", [None] * 5)
    vn, en, cn, mn, rn = [(f if fx is None else fx) for f, fx in zip((vn, en, cn, mn, rn), fix)]
    m = Meta(isdir=isdir, size=_opt(sn, size), nfiles=_opt(nn, nfiles), isexec=isexec, version_id=_opt(vn, version_id),
             etag=_opt(en, etag), checksum=_opt(cn, checksum), md5=_opt(mn, md5), remote=_opt(rn, remote))
    d = m.to_dict()
    m2 = Meta.from_dict(d)
    d2 = m2.to_dict()
    if d2 != d:
        violation("meta-dict-roundtrip-differs", (d, d2))
    for f in d:
        if getattr(m2, f) != getattr(m, f):
            violation("meta-field-changed", f)
    # a field that is set to a meaningful (truthy / not-None) value must be serialised
    if (m.size is not None and "size" not in d) or (m.nfiles is not None and "nfiles" not in d):
        violation("meta-field-dropped", "size/nfiles")
    if (m.isdir and "isdir" not in d) or (m.isexec and "isexec" not in d):
        violation("meta-field-dropped", "isdir/isexec")
    for f in ("version_id", "etag", "checksum", "md5", "remote"):
        if getattr(m, f) and f not in d:
            violation("meta-field-dropped", f)
    journal({"keys": sorted(d)}, True)
    return True


def h_hashinfo(ni: int, vn: bool, value: str) -> bool:
    """
    pre: 0 <= ni <= 5 and len(value) <= 2
    post: _
    """
    name = NAMES[pick(ni, 0, 5)]
    v = _opt(vn, value)
    h = HashInfo(name, v)
    d = h.to_dict()
    h2 = HashInfo.from_dict(d)
    if h2.to_dict() != d:
        violation("hashinfo-dict-roundtrip-differs", (d, h2.to_dict()))
    if d:
        if h2.name != name or h2.value != v:
            violation("hashinfo-field-changed", (name, h2.name))
    elif name and v:
        violation("hashinfo-dropped", (name,))
    if bool(h2) != bool(h) and d:
        violation("hashinfo-truthiness-changed", None)
    journal({"name": name, "emitted": bool(d)}, True)
    return True


def _proj(e):
    return ((e.meta.to_dict() if e.meta else {}), (e.hash_info.to_dict() if e.hash_info else {}), e.loaded)


def h_entry(has_meta: bool, isdir: bool, sn: bool, size: int, isexec: bool, mn: bool, md5: str,
            has_hi: bool, ni: int, vn: bool, value: str, li: int) -> bool:
    """
    pre: 0 <= ni <= 5 and 0 <= li <= 2 and len(md5) <= 1 and len(value) <= 2
    post: _
    """
    loaded = [None, False, True][pick(li, 0, 2)]
    meta = Meta(isdir=isdir, size=_opt(sn, size), isexec=isexec, md5=_opt(mn, md5)) if B(has_meta) else None
    hi = HashInfo(NAMES[pick(ni, 0, 5)], _opt(vn, value)) if B(has_hi) else None
    e = DataIndexEntry(key=("k",), meta=meta, hash_info=hi, loaded=loaded)
    d = e.to_dict()
    e2 = DataIndexEntry.from_dict(d)
    if _proj(e2) != _proj(e):
        violation("entry-roundtrip-differs", (_proj(e), _proj(e2)))
    journal({"meta": bool(meta is not None), "hi": bool(hi is not None), "loaded": loaded, "keys": sorted(d)}, True)
    return True


def h_key(a: str, b: str, c: str, n: int) -> bool:
    """
    pre: 1 <= n <= 3 and len(a) <= KLEN and len(b) <= KLEN and len(c) <= KLEN
    pre: "/" not in a and "/" not in b and "/" not in c
    post: _
    """
    key = (a, b, c)[:pick(n, 1, 3)]
    s = "/".join(key)
    back = tuple(s.split("/"))
    if back != key:
        violation("key-join-split-not-identity", (key, back))
    journal({"n": len(key)}, True)
    return True


KLEN = int(cube("klen", 2))

# ---------------------------------------------------------------------------------------------------------
# listing with metadata (Tree.as_list(with_meta=True) / from_list(hash_name))

LKEYS = [("a",), ("d", "b"), ("d", "é c")]


def h_listing(p0: bool, p1: bool, p2: bool, s0: int, s1: int, s2: int, sn0: bool, sn1: bool, sn2: bool,
              x0: bool, x1: bool, x2: bool, v0: str, v1: str, v2: str) -> bool:
    """
    pre: 1 <= len(v0) <= 2 and 1 <= len(v1) <= 2 and 1 <= len(v2) <= 2
    post: _
    """
    hname = cube("hash_name", "md5")
    t = Tree()
    exp = {}
    for k, p, s, sn, x, v in zip(LKEYS, (p0, p1, p2), (s0, s1, s2), (sn0, sn1, sn2), (x0, x1, x2), (v0, v1, v2)):
        if B(p):
            meta = Meta(size=_opt(sn, s), isexec=x)
            t.add(k, meta, HashInfo(hname, v))
            exp[k] = (meta.to_dict(), v)
    lst = t.as_list(with_meta=True)
    t2 = Tree.from_list(lst, hash_name=hname)
    got = {k: (m, hi) for k, m, hi in t2}
    if set(got) != set(exp):
        violation("listing-keys-differ", (sorted(exp), sorted(got)))
    for k, (md, v) in exp.items():
        m2, hi2 = got[k]
        if hi2 is None or hi2.name != hname or hi2.value != v:
            violation("listing-hash-differs", k)
        d2 = m2.to_dict()
        d2.pop("md5" if hname == "md5-dos2unix" else hname, None)  # the hash itself is (also) parsed into the Meta field of its name
        if d2 != md:
            violation("listing-meta-differs", (k, md, d2))
    if t2.as_list(with_meta=True) != lst:
        violation("listing-not-stable", None)
    # the plain listing (what the digest covers) is independent of the metadata
    if [dict(e) for e in t.as_list()] != [{("md5" if hname == "md5-dos2unix" else hname): exp[k][1], "relpath": "/".join(k)}
                                           for k in sorted(exp, key=lambda kk: "/".join(kk))]:
        violation("listing-plain-form-unexpected", None)
    journal({"present": sorted("/".join(k) for k in exp)}, bool(exp))
    return True


# ---------------------------------------------------------------------------------------------------------
# whole-index forms.  Values come from explicit small sets (json realises them anyway).

IKEYS = [("a",), ("d",), ("d", "b"), ("é", "x y")]
SIZES = [None, 0, 7]
HVALS = [None, "", "abc", "abc.dir"]


def _mk_index(sel):
    idx = DataIndex()
    exp = {}
    for key, (pres, mi, si, xi, hi_i, li) in zip(IKEYS, sel):
        if not pres:
            continue
        meta = None if mi == 0 else Meta(isdir=(mi == 2), size=SIZES[si], isexec=bool(xi))
        hi = None if hi_i == 0 else HashInfo("md5", HVALS[hi_i])
        e = DataIndexEntry(key=key, meta=meta, hash_info=hi, loaded=[None, False, True][li])
        idx[key] = e
        exp[key] = _proj(e)
    return idx, exp


class _ModelCache(dict):
    """stands in for diskcache.Cache (SQLite): a mapping with transact()/close(); values stored as given"""

    def __init__(self, path):
        super().__init__()

    def transact(self, retry=False):
        import contextlib

        return contextlib.nullcontext()

    def close(self):
        pass


def h_index_forms(pr0: bool, pr1: bool, pr2: bool, pr3: bool, m0: int, m1: int, m2: int, m3: int, s0: int, s1: int, s2: int, s3: int,
                  x0: bool, x1: bool, x2: bool, x3: bool, h0: int, h1: int, h2: int, h3: int, l0: int, l1: int, l2: int, l3: int) -> bool:
    """
    pre: 0 <= m0 <= 2 and 0 <= m1 <= 2 and 0 <= m2 <= 2 and 0 <= m3 <= 2 and 0 <= s0 <= 2 and 0 <= s1 <= 2 and 0 <= s2 <= 2 and 0 <= s3 <= 2
    pre: 0 <= l0 <= 2 and 0 <= l1 <= 2 and 0 <= l2 <= 2 and 0 <= l3 <= 2 and 0 <= h0 <= 3 and 0 <= h1 <= 3 and 0 <= h2 <= 3 and 0 <= h3 <= 3
    post: _
    """
    form = cube("form", "json")
    nk = int(cube("nkeys", 2))
    off = int(cube("koff", 0))
    sel = []
    for i in range(4):
        if off <= i < off + nk and B((pr0, pr1, pr2, pr3)[i]):
            sel.append((True, pick((m0, m1, m2, m3)[i], 0, 2), pick((s0, s1, s2, s3)[i], 0, 2), int(B((x0, x1, x2, x3)[i])),
                        pick((h0, h1, h2, h3)[i], 0, 3), pick((l0, l1, l2, l3)[i], 0, 2)))
        else:
            sel.append((False, 0, 0, 0, 0, 0))
    with NoTracing():
        idx, exp = _mk_index(sel)
    import dvc_data.index.serialize as S

    if form == "json":
        store = {}

        class _F(io.StringIO):
            def close(self_):
                store["text"] = self_.getvalue()
                super().close()

        def fake_open(path, mode="r", encoding=None):
            return _F() if "w" in mode else io.StringIO(store["text"])

        S.open = fake_open
        try:
            S.write_json(idx, "/__vf__/i.json")
            back = S.read_json("/__vf__/i.json")
        finally:
            del S.open
    elif form == "db":
        cache = {}

        def mk(path):
            return cache.setdefault(path, _ModelCache(path))

        real = S.Cache
        S.Cache = mk
        try:
            S.write_db(idx, "/__vf__/db")
            # a key-value store holds serialised values: force them through json text like diskcache's pickled/JSON disk does not
            back = S.read_db("/__vf__/db")
        finally:
            S.Cache = real
    else:  # "trie": DataIndexTrie (JSON values + identity cache) over an in-memory raw trie, close() then re-read
        from sqltrie import PyGTrie

        from dvc_data.index.index import DataIndexTrie

        trie = DataIndexTrie()
        trie._trie = PyGTrie()
        src = DataIndex()
        src._trie = trie
        for k, e in idx.items():
            src[k] = e
        # identity cache must hand back what was stored
        for k, e in idx.items():
            if src[k] is not e and _proj(src[k]) != _proj(e):
                violation("trie-cache-returns-other-entry", k)
        if cube("mutate", False):
            # update-in-place pattern: fetch an entry, change it, store the very same object again
            for k in list(idx.keys()):
                e = src[k]
                e.loaded = not bool(e.loaded)
                e.hash_info = HashInfo("md5", "changed" + ("" if not e.hash_info or not e.hash_info.value else e.hash_info.value))
                src[k] = e
                exp[k] = _proj(e)
        src.commit()
        src.close()  # drops the identity cache; from now on values come from their JSON form
        back = DataIndex()
        trie2 = DataIndexTrie()
        trie2._trie = trie._trie
        back._trie = trie2
    got = {k: _proj(e) for k, e in back.items()}
    if set(got) != set(exp):
        violation("index-keys-differ", (form, sorted(exp), sorted(got)))
    for k in exp:
        if got[k] != exp[k]:
            violation("index-entry-differs", (form, k, exp[k], got[k]))
        if back[k].key != k:
            violation("index-entry-key-differs", (form, k))
    journal({"form": form, "sel": sel}, any(s[0] for s in sel))
    return True
