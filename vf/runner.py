"""Job runner: turns a property spec into solver jobs, runs them on all cores, replays counterexamples,
matches known findings and writes the evidence file."""
import ast
import concurrent.futures as cf
import dataclasses
import hashlib
import importlib
import inspect
import json
import os
import re
import shutil
import subprocess
import sys
import tempfile
import time
from typing import Callable, Optional

VERIF = os.path.dirname(os.path.dirname(os.path.abspath(__file__)))
PY = sys.executable
EXIT_OK, EXIT_VIOLATION, EXIT_HARNESS = 0, 1, 2


@dataclasses.dataclass
class H:
    """One harness of a property."""

    name: str
    module: str
    func: str
    cubes: Callable[[str], list]  # tier -> list of cube dicts
    timeout: dict  # tier -> per-cube CPU seconds for CrossHair (per_condition_timeout)
    bounds: dict  # tier -> human statement of the bound
    smoke: list  # list of {"args": {...}, "cube": {...}} concrete runs (also measures functions entered)
    real: bool = False  # harness can replay on the real filesystem/stores (VF_MODE=real)
    engine: str = "A"  # "A" CrossHair, "B" direct z3 queries (module exposes engine_b(cube) CLI)
    path_timeout: float = 60.0
    encodes: str = ""
    allow_trivial_cubes: bool = False
    stubs: tuple = ()


@dataclasses.dataclass
class Spec:
    pid: str
    title: str
    harnesses: list
    assumptions: list
    outside: list  # what lies outside the bound / claim
    explanation: str


@dataclasses.dataclass
class JobResult:
    harness: str
    cube: dict
    verdict: str  # confirmed | refuted | unknown | vacuous | error
    message: str = ""
    cex_args: Optional[dict] = None
    paths: int = 0
    nontrivial: int = 0
    distinct: set = dataclasses.field(default_factory=set)
    samples: list = dataclasses.field(default_factory=list)
    known_hits: list = dataclasses.field(default_factory=list)
    wall: float = 0.0
    solver_s: float = 0.0
    queries: int = 0
    stdout: str = ""
    stderr_tail: str = ""
    suppress: str = ""


_FUNC_CACHE = {}


def _func_line(module, func):
    """(file, first body line, parameter names) of a harness function - from the source text (the runner process never imports
    harness modules: they pull in the repository and are imported by the job subprocesses only)."""
    key = (module, func)
    if key not in _FUNC_CACHE:
        file = os.path.join(VERIF, *module.split(".")) + ".py"
        with open(file, encoding="utf-8") as f:
            tree = ast.parse(f.read())
        for node in tree.body:
            if isinstance(node, ast.FunctionDef) and node.name == func:
                _FUNC_CACHE[key] = (file, node.lineno + 1, [a.arg for a in node.args.args])
                break
        else:
            raise KeyError(f"{module}.{func} not found")
    return _FUNC_CACHE[key]


def _base_env(cube, seed, mode, extra=None):
    env = dict(os.environ)
    env["VF_CUBE"] = json.dumps(cube)
    env["VF_MODE"] = mode
    env["PYTHONHASHSEED"] = str(seed % 4294967295)
    # VERIF_REPO_SRC (optional): analyse another checkout of the repository (e.g. the HEAD snapshot of a background run) instead of the
    # editable install's /repo/src
    alt = os.environ.get("VERIF_REPO_SRC")
    env["PYTHONPATH"] = (alt + os.pathsep if alt else "") + VERIF + os.pathsep + env.get("PYTHONPATH", "")
    env["PYTHONDONTWRITEBYTECODE"] = "1"
    env.pop("VF_JOURNAL", None)
    env.pop("VF_JOURNAL_FD", None)
    env.pop("VF_SUPPRESS", None)
    if extra:
        env.update(extra)
    return env


_CALL_RE = re.compile(r"error: (?P<msg>.*?) ?when calling (?P<call>\w+\(.*\))(?: \(which returns (?P<ret>.*)\))?\s*$")


def parse_call(call_src, params):
    """'h(1, True, x='a')' -> {param: value}"""
    node = ast.parse(call_src, mode="eval").body
    assert isinstance(node, ast.Call)
    out = {}
    for i, a in enumerate(node.args):
        out[params[i]] = ast.literal_eval(a)
    for kw in node.keywords:
        out[kw.arg] = ast.literal_eval(kw.value)
    return out


def run_job_A(h: H, cube, tier, seed, workdir, suppress="", verbose=False) -> JobResult:
    file, line, fn = _func_line(h.module, h.func)
    tag = hashlib.sha1(json.dumps([h.name, cube, suppress], sort_keys=True).encode()).hexdigest()[:10]
    jpath = os.path.join(workdir, f"{h.name}-{tag}.journal")
    open(jpath, "w").close()
    T = h.timeout[tier]
    env = _base_env(cube, seed, "sym", {"VF_JOURNAL": jpath})
    if suppress:
        env["VF_SUPPRESS"] = suppress
    cmd = [PY, "-m", "vf.chlaunch", "check", "--report_all",
           # sqltrie's private in-memory databases (SQLite-backed index cubes); vf.env's containment guard rejects on-disk databases
           "--unblock", "sqlite3.connect", "sqlite3.connect/handle",
           "--analysis_kind", "PEP316", "--per_condition_timeout", str(T), "--per_path_timeout", str(h.path_timeout)]
    if verbose:
        cmd.append("-v")
    cmd.append(f"{file}:{line}")
    t0 = time.time()
    try:
        p = subprocess.run(cmd, env=env, cwd=VERIF, capture_output=True, text=True, timeout=T * 10 + 600)
        out, err, rc = p.stdout, p.stderr, p.returncode
    except subprocess.TimeoutExpired as e:
        out = (e.stdout or b"").decode() if isinstance(e.stdout, bytes) else (e.stdout or "")
        err = "wall timeout"
        rc = -9
    res = JobResult(h.name, cube, "error", wall=time.time() - t0, stdout=out, stderr_tail=err[-2000:], suppress=suppress)
    verdict = None
    for ln in out.splitlines():
        m = _CALL_RE.search(ln)
        if m and m.group("call").startswith(h.func + "("):
            verdict = "refuted"
            res.message = m.group("msg").strip()
            if m.group("ret"):
                res.message += f" (returns {m.group('ret')})"
            try:
                res.cex_args = enc_args(parse_call(m.group("call"), fn))
            except Exception as e:  # noqa: BLE001
                res.message += f" [unparsed call: {e}: {m.group('call')}]"
                verdict = "error"
            break
        if "info: Confirmed over all paths." in ln:
            verdict = "confirmed"
        elif "info: Not confirmed." in ln:
            verdict = "unknown"
        elif "Unable to meet precondition" in ln:
            verdict = "vacuous"
        elif ": error: " in ln and verdict is None:
            verdict = "error"
            res.message = ln
    if verdict is None:
        verdict = "error"
        res.message = f"no verdict (rc={rc}) {err[-500:]}"
    res.verdict = verdict
    _read_journal(jpath, res)
    return res


def _read_journal(jpath, res):
    try:
        with open(jpath) as f:
            for ln in f:
                try:
                    rec = json.loads(ln)
                except ValueError:
                    continue
                res.paths += 1
                key = json.dumps(rec.get("d"), sort_keys=True)
                if rec.get("n"):
                    res.nontrivial += 1
                    if key not in res.distinct and len(res.samples) < 3:
                        res.samples.append(rec.get("d"))
                    res.distinct.add(key)
                if rec.get("k"):
                    res.known_hits.extend(rec["k"])
    except FileNotFoundError:
        pass


def run_job_B(h: H, cube, tier, seed, workdir) -> JobResult:
    """Engine B job: the harness module is a script printing one JSON line with its verdict."""
    env = _base_env(cube, seed, "sym")
    t0 = time.time()
    T = h.timeout[tier]
    try:
        p = subprocess.run([PY, "-m", h.module, "--func", h.func, "--timeout", str(T)], env=env, cwd=VERIF,
                           capture_output=True, text=True, timeout=T * 2 + 120)
        out, err = p.stdout, p.stderr
    except subprocess.TimeoutExpired:
        return JobResult(h.name, cube, "unknown", message="wall timeout", wall=time.time() - t0)
    res = JobResult(h.name, cube, "error", wall=time.time() - t0, stdout=out, stderr_tail=err[-2000:])
    try:
        rec = json.loads(out.strip().splitlines()[-1])
    except Exception:  # noqa: BLE001
        res.message = "no JSON verdict: " + err[-500:]
        return res
    res.verdict = rec.get("verdict", "error")
    res.message = rec.get("message", "")
    res.cex_args = rec.get("cex")
    res.queries = rec.get("queries", 0)
    res.solver_s = rec.get("solver_s", 0.0)
    res.paths = rec.get("paths", 0)
    res.nontrivial = rec.get("nontrivial", res.paths)
    for s in rec.get("distinct", []):
        res.distinct.add(json.dumps(s, sort_keys=True))
    res.samples = rec.get("samples", [])[:3]
    return res


def enc_args(args):
    """JSON-safe form of counterexample arguments (bytes -> {"__bytes__": hex})"""
    def enc(v):
        if isinstance(v, (bytes, bytearray)):
            return {"__bytes__": bytes(v).hex()}
        if isinstance(v, (list, tuple)):
            return [enc(x) for x in v]
        if isinstance(v, dict):
            return {k: enc(x) for k, x in v.items()}
        return v
    return {k: enc(v) for k, v in (args or {}).items()}


def replay(h: H, cube, args, mode, profile=False, timeout=600):
    env = _base_env(cube, 0, mode)
    cmd = [PY, "-m", "vf.replay", "--module", h.module, "--func", h.func, "--args", json.dumps(enc_args(args))]
    if profile:
        cmd.append("--profile")
    try:
        p = subprocess.run(cmd, env=env, cwd=VERIF, capture_output=True, text=True, timeout=timeout)
    except subprocess.TimeoutExpired:
        return {"outcome": "error", "exc": "replay timeout"}
    try:
        return json.loads(p.stdout.strip().splitlines()[-1])
    except Exception:  # noqa: BLE001
        return {"outcome": "error", "exc": "no replay output", "stderr": p.stderr[-1500:]}


def load_known():
    p = os.path.join(VERIF, "known_findings.json")
    if not os.path.exists(p):
        return []
    with open(p) as f:
        return json.load(f).get("findings", [])


def repo_state():
    def g(*a):
        try:
            return subprocess.run(["git", "-C", "/repo", *a], capture_output=True, text=True, timeout=30).stdout
        except Exception:  # noqa: BLE001
            return ""
    head = g("rev-parse", "HEAD").strip()
    diff = g("diff", "HEAD", "--", "src")
    return {"head": head, "worktree_diff_sha256": hashlib.sha256(diff.encode()).hexdigest()[:16], "dirty": bool(diff.strip())}


def run_property(spec: Spec, tier: str, seed: int, jobs: int, only=None, verbose=False, keep=False):
    t_start = time.time()
    scratch_root = os.environ.get("VERIF_SCRATCH") or "/var/tmp"
    workdir = tempfile.mkdtemp(prefix=f"verif-{spec.pid}-", dir=scratch_root)
    os.environ["VERIF_SCRATCH_DIR"] = workdir
    known = [k for k in load_known() if k.get("property") == spec.pid]
    open_known = {k["tag"]: k for k in known if k.get("status") == "open"}
    harnesses = [h for h in spec.harnesses if not only or h.name in only]
    lines = []
    exit_code = EXIT_OK
    harness_reports = []
    all_results = []
    violations = []
    known_printed = set()

    def say(s):
        print(s, flush=True)
        lines.append(s)

    try:
        # 1. smoke + profile (also proves the harness itself runs concretely on this tree)
        functions = {}
        for h in harnesses:
            fset = {}
            for sm in h.smoke:
                r = replay(h, sm.get("cube", {}), sm.get("args", {}), "concrete", profile=True)
                if r["outcome"] in ("error", "gap"):
                    say(f"HARNESS-ERROR property={spec.pid} harness={h.name} smoke run failed: {r.get('exc') or r.get('detail')}")
                    if r.get("tb"):
                        say(r["tb"])
                    exit_code = EXIT_HARNESS
                for f in r.get("functions", []):
                    fset[(f["file"], f["func"])] = f
            functions[h.name] = sorted(fset.values(), key=lambda f: (f["file"], f["line"]))
        if exit_code == EXIT_HARNESS:
            return exit_code, None

        # 1b. differential validation of the model environment against the real filesystem (blocks a clean pass on disagreement)
        model_validation = None
        if any(h.real for h in harnesses) or spec.pid in ("C15", "C16", "C17"):
            mv = subprocess.run([PY, "-m", "vf.validate_model"], env=_base_env({}, seed, "concrete"), cwd=VERIF, capture_output=True, text=True,
                                timeout=600)
            agree = mv.stdout.count(": agree")
            model_validation = {"scenarios_agreeing": agree, "exit": mv.returncode}
            if mv.returncode != 0:
                say(f"HARNESS-ERROR property={spec.pid} model environment disagrees with the real filesystem:\n{mv.stdout[-1500:]}{mv.stderr[-500:]}")
                exit_code = EXIT_HARNESS

        # 2. solver jobs
        todo = []
        for h in harnesses:
            for c in h.cubes(tier):
                todo.append((h, c, ""))
        hmap = {h.name: h for h in harnesses}
        todo.sort(key=lambda it: -(it[1].get("_w", 1) * it[0].timeout[tier]))  # longest jobs first

        def run_one(item):
            h, c, sup = item
            if h.engine == "B":
                return run_job_B(h, c, tier, seed, workdir)
            return run_job_A(h, c, tier, seed, workdir, suppress=sup, verbose=verbose)

        pending = list(todo)
        while pending:
            batch, pending = pending, []
            with cf.ThreadPoolExecutor(max_workers=jobs) as ex:
                results = list(ex.map(run_one, batch))
            for (h, c, sup), res in zip(batch, results):
                all_results.append(res)
                if res.verdict == "refuted":
                    # replay before reporting
                    r1 = replay(h, c, res.cex_args, "concrete")
                    r2 = replay(h, c, res.cex_args, "real") if (h.real and r1["outcome"] in ("viol", "false")) else None
                    final = r2 or r1
                    res.message += f" | replay concrete={r1['outcome']}" + (f" real={r2['outcome']}" if r2 else "")
                    if final["outcome"] in ("viol", "false"):
                        tagv = final.get("tag") or "returned-false"
                        if tagv in open_known:
                            k = open_known[tagv]
                            if tagv not in known_printed:
                                say(f"KNOWN-FINDING: property={spec.pid} {k['what']}")
                                known_printed.add(tagv)
                            sup2 = ",".join(sorted(set(filter(None, sup.split(","))) | {tagv}))
                            if sup2 != sup:
                                pending.append((h, c, sup2))
                            res.verdict = "known"
                        else:
                            rp = _write_replay(spec.pid, h, c, res.cex_args, final, tier)
                            say(f"VIOLATION property={spec.pid} replay={rp}")
                            say(f"  harness={h.name} cube={json.dumps(c)} args={json.dumps(res.cex_args)} {final.get('tag','')}: {final.get('detail', final.get('returned',''))}")
                            violations.append(rp)
                            exit_code = EXIT_VIOLATION
                    else:
                        say(f"INCONCLUSIVE property={spec.pid} harness={h.name} cube={json.dumps(c)}: solver counterexample did not reproduce "
                            f"({final['outcome']}: {final.get('exc') or final.get('detail') or ''}) args={json.dumps(res.cex_args)} msg={res.message}")
                        res.verdict = "nonreproducing"
                        if exit_code == EXIT_OK:
                            exit_code = EXIT_HARNESS
                elif res.verdict in ("error", "vacuous"):
                    say(f"HARNESS-ERROR property={spec.pid} harness={h.name} cube={json.dumps(c)} verdict={res.verdict}: {res.message}\n{res.stderr_tail[-800:]}")
                    if exit_code == EXIT_OK:
                        exit_code = EXIT_HARNESS
                elif res.verdict in ("confirmed", "unknown"):
                    if res.known_hits:
                        for tg in set(res.known_hits):
                            if tg in open_known and tg not in known_printed:
                                say(f"KNOWN-FINDING: property={spec.pid} {open_known[tg]['what']}")
                                known_printed.add(tg)
                    if res.nontrivial == 0 and not hmap[res.harness].allow_trivial_cubes and hmap[res.harness].engine == "A":
                        say(f"HARNESS-ERROR property={spec.pid} harness={h.name} cube={json.dumps(c)}: vacuous (no non-trivial path reached the assertion)")
                        if exit_code == EXIT_OK:
                            exit_code = EXIT_HARNESS

        # 3. evidence
        per_h = []
        tot_paths = tot_nt = 0
        distinct_all = set()
        samples = []
        exhaustive = True
        for h in harnesses:
            rs = [r for r in all_results if r.harness == h.name]
            counts = {}
            for r in rs:
                counts[r.verdict] = counts.get(r.verdict, 0) + 1
            paths = sum(r.paths for r in rs)
            d = set()
            for r in rs:
                for k in r.distinct:
                    d.add(json.dumps([r.cube, k]))
            tot_paths += paths + sum(r.queries for r in rs if h.engine == "B" and not r.paths)
            distinct_all |= {h.name + k for k in d}
            for r in rs:
                for s in r.samples[:1]:
                    if len(samples) < 8:
                        samples.append({"harness": h.name, "cube": r.cube, "decisions": s})
            if any(r.verdict != "confirmed" for r in rs):
                exhaustive = False
            per_h.append({
                "harness": h.name, "engine": "CrossHair 0.0.110 + z3" if h.engine == "A" else "z3 direct (Engine B shim)",
                "entry": f"{h.module}.{h.func}", "encodes_declared": h.encodes,
                "functions_entered_measured": functions.get(h.name, []),
                "bounds": h.bounds.get(tier, ""), "cubes": len(rs), "verdicts": counts,
                "paths_completed": paths, "distinct_nontrivial": len(d),
                "solver_queries": sum(r.queries for r in rs), "solver_s": round(sum(r.solver_s for r in rs), 2),
                "job_wall_s_sum": round(sum(r.wall for r in rs), 1), "per_cube_cpu_budget_s": h.timeout[tier],
                "stubs": list(h.stubs),
                "cubes_not_exhausted": [r.cube for r in rs if r.verdict == "unknown"][:20],
            })
        ev = {
            "property_id": spec.pid, "tier": tier, "seed": seed, "level": "other",
            "coverage": {
                "explanation": spec.explanation,
                "evaluations": tot_paths, "distinct_nontrivial": len(distinct_all),
                "rule": "One evaluation = one execution path of a harness completed under CrossHair (every branch decided by z3, path "
                        "condition feasible) or one discharged z3 query (Engine B). A path is non-trivial when the harness reached its "
                        "assertion after running the real code on a non-degenerate scenario; distinct = distinct (harness, cube, branch-"
                        "decision vector) recorded in the path journal. 'confirmed' cubes had their path tree exhausted by CrossHair "
                        "(bounded proof inside the cube); 'unknown' cubes ran out of budget and are NOT counted as proven.",
                "samples": samples or [{"note": "no path journal entries"}],
                "exhaustive": bool(exhaustive and all_results),
                "harnesses": per_h,
                "outside_the_bound": spec.outside,
                "repo": repo_state(),
                "model_validation": model_validation,
                "known_findings_open": sorted(known_printed),
                "violations_replays": violations,
            },
            "assumptions": spec.assumptions,
            "wall_s": round(time.time() - t_start, 1),
            "violations": len(violations),
        }
        evdir = os.environ.get("VF_EVIDENCE_DIR") or os.path.join(VERIF, "evidence")  # redirected when testing seeded changes
        os.makedirs(evdir, exist_ok=True)
        with open(os.path.join(evdir, f"{spec.pid}.json"), "w") as f:
            json.dump(ev, f, indent=1, default=repr)
        conf = sum(1 for r in all_results if r.verdict == "confirmed")
        say(f"SUMMARY property={spec.pid} tier={tier} cubes={len(all_results)} confirmed={conf} "
            f"unknown={sum(1 for r in all_results if r.verdict == 'unknown')} paths={tot_paths} distinct_nontrivial={len(distinct_all)} "
            f"violations={len(violations)} wall={ev['wall_s']}s exit={exit_code}")
        return exit_code, ev
    finally:
        if not keep:
            shutil.rmtree(workdir, ignore_errors=True)


def _write_replay(pid, h, cube, args, final, tier):
    d = os.path.join(VERIF, "replays")
    os.makedirs(d, exist_ok=True)
    body = {"property": pid, "harness": h.name, "module": h.module, "func": h.func, "cube": cube, "args": args,
            "mode": "real" if h.real else "concrete", "outcome": final, "tier": tier}
    name = f"{pid}-{h.name}-{hashlib.sha1(json.dumps([cube, args], sort_keys=True).encode()).hexdigest()[:10]}.json"
    p = os.path.join(d, name)
    with open(p, "w") as f:
        json.dump(body, f, indent=1)
    return p
