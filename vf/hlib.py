"""Harness library shared by every Engine-A harness.

A harness is a plain function with typed (symbolic) parameters and a PEP316 contract ``post: _``.
It builds a scenario from its parameters, runs the real dvc-data code, and returns True when the
property held on that path.  A violation is reported with :func:`violation`, which raises
:class:`Viol` (CrossHair then prints the concrete arguments of the path).

Modes (``VF_MODE``):
  sym       running under CrossHair (symbolic parameters, model environment)
  concrete  plain Python on the model environment (first replay stage, smoke runs)
  real      plain Python on the real filesystem / real stores (second replay stage)
"""
import json
import os
import sys

CUBE = json.loads(os.environ.get("VF_CUBE") or "{}")
MODE = os.environ.get("VF_MODE", "concrete")
SUPPRESS = set(filter(None, (os.environ.get("VF_SUPPRESS") or "").split(",")))
_JFD = int(os.environ["VF_JOURNAL_FD"]) if os.environ.get("VF_JOURNAL_FD") else None

try:  # crosshair is present in the overlay venv; plain replays do not need it
    from crosshair.tracers import NoTracing
except Exception:  # pragma: no cover

    class NoTracing:  # type: ignore[no-redef]
        def __enter__(self):
            return self

        def __exit__(self, *a):
            return False


class Viol(Exception):
    """The property is violated on this path. ``tag`` names the failing pattern structurally."""

    def __init__(self, tag, detail=None):
        self.tag = tag
        self.detail = detail
        super().__init__(f"[{tag}] {detail!r}")


class HarnessGap(Exception):
    """The model/harness cannot represent what the code asked for: inconclusive, never a violation."""


def cube(name, default=None):
    return CUBE.get(name, default)


def B(x) -> bool:
    """Concretise a (possibly symbolic) truth value by branching on it."""
    return True if x else False


def pick(x, lo, hi) -> int:
    """Concretise a small symbolic int in [lo, hi] by branching (the harness precondition bounds it)."""
    for v in range(lo, hi):
        if x == v:
            return v
    return hi


_known_hits = []


def violation(tag, detail=None):
    """Report a violation; tags listed in VF_SUPPRESS (open known findings) are journalled and skipped
    so that the exploration goes on looking for *other* violations in the same cube."""
    if tag in SUPPRESS:
        _known_hits.append(tag)
        return
    raise Viol(tag, detail)


def journal(decisions, nontrivial=True, extra=None):
    """Record the end of one explored path: the concrete decision vector the harness branched on."""
    global _known_hits
    rec = {"d": decisions, "n": bool(nontrivial)}
    if _known_hits:
        rec["k"] = list(_known_hits)
        _known_hits = []
    if extra:
        rec["x"] = extra
    if _JFD is None:
        if os.environ.get("VF_ECHO_JOURNAL"):
            sys.stderr.write("JOURNAL " + json.dumps(rec, default=repr) + "\n")
        return
    with NoTracing():
        line = (json.dumps(rec, default=repr) + "\n").encode()
        os.write(_JFD, line)


# ---------------------------------------------------------------------------------------------
# quiet stubs: progress bars / logging are not the subject of any property

_quiet_done = False


def install_quiet():
    global _quiet_done
    if _quiet_done:
        return
    _quiet_done = True
    import logging

    logging.disable(logging.CRITICAL)
    from fsspec.callbacks import Callback

    class QuietProgress:
        def __init__(self, iterable=None, total=None, name=None, phase="Querying", **kw):
            self.it = iterable
            self.total = total
            self.n = 0

        def __iter__(self):
            return iter(self.it)

        def __enter__(self):
            return self

        def __exit__(self, *a):
            return False

        def callback(self, *a):
            pass

        def update(self, *a, **k):
            pass

        def close(self):
            pass

    class QuietCallback(Callback):
        def __init__(self, *a, size=None, value=0, **kw):
            super().__init__(size=size, value=value)

        def call(self, *a, **k):
            pass

        def branched(self, *a, **k):
            return QuietCallback()

        def close(self):
            pass

    import dvc_data.callbacks as CB
    import dvc_data.hashfile._progress as PR

    PR.QueryingProgress = QuietProgress
    CB.TqdmCallback = QuietCallback
    for modname in (
        "dvc_data.hashfile.build",
        "dvc_data.hashfile.hash",
        "dvc_data.index.checkout",
        "dvc_data.index.push",
        "dvc_data.index.fetch",
    ):
        mod = __import__(modname, fromlist=["x"])
        if hasattr(mod, "TqdmCallback"):
            mod.TqdmCallback = QuietCallback
    import dvc_data.hashfile.hash as H

    class QuietLarge(QuietCallback):
        LARGE_FILE_SIZE = H.LargeFileHashingCallback.LARGE_FILE_SIZE

    H.LargeFileHashingCallback = QuietLarge


class PermExecutor:
    """Stand-in for dvc_objects' ThreadPoolExecutor where the code under analysis uses imap_unordered: tasks run serially and
    the results are yielded in a chosen permutation (its documented contract: completion order is arbitrary)."""

    reverse = False

    def __init__(self, max_workers=None, **kw):
        self.max_workers = max_workers

    def __enter__(self):
        return self

    def __exit__(self, *a):
        return False

    def imap_unordered(self, fn, *iterables):
        res = [fn(*args) for args in zip(*iterables)]
        if PermExecutor.reverse:
            res.reverse()
        yield from res
