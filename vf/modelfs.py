"""Model of a POSIX local filesystem behind dvc_objects' real LocalFileSystem wrapper.

Only dependencies and the OS are modelled, never dvc-data code.  All state is per instance (a fresh instance per
explored path), mutations are logged as primitives (for crash points / interference), there is no real I/O.

Semantics implemented (validated differentially against the real filesystem by vf.validate_model):
  * files with inode records shared by hard links (data, mode, mtime, ino, nlink); symlinks to files (own inode);
    directories; a logical clock that strictly increases on every content mutation (the C07/C13 assumption);
  * put_file / copy / upload_fobj = write to a temp name in the parent, then rename (as dvc_objects does);
  * mv = two renames through `<dst>.<tmp>` (dvc_objects.fs.utils.move); remove ignores ENOENT and removes trees;
  * link() of an empty file creates an independent empty file (dvc_objects behaviour); reflink unsupported (ENOTSUP);
  * permission bits are data (the process is root-equivalent, as in this sandbox), rename replaces files atomically.
"""
import errno
import io
import posixpath
import stat as _stat

from dvc_objects.fs.base import FileSystem
from dvc_objects.fs.local import LocalFileSystem

from vf.hlib import HarnessGap

ROOT = "/__vf__"  # sentinel root: does not exist on the real disk


class ModelGapAttr(AttributeError, HarnessGap):
    """an attribute the model does not provide: hasattr() sees AttributeError, harnesses see a HarnessGap"""


class Crash(BaseException):
    """Process killed at a filesystem mutation (C15).  BaseException: ordinary handlers must not swallow it."""


class Ino:
    __slots__ = ("data", "mode", "mtime", "ino", "nlink")

    def __init__(self, ino, data, mode, mtime):
        self.ino, self.data, self.mode, self.mtime, self.nlink = ino, data, mode, mtime, 1


class ModelInner:
    async_impl = False
    root_marker = "/"
    sep = "/"
    protocol = "file"

    def __init__(self, umask=0o022):
        self.files = {}  # path -> Ino
        self.links = {}  # path -> (target, ino)
        self.dirs = {"/": 2}
        self.clock = 1000
        self.next_ino = 10
        self.tmpn = 0
        self.umask = umask
        self.log = []  # primitive mutations, in order
        self.crash_at = None  # index into the mutation log at which the process dies
        self.frozen = False
        self.freeze_on_crash = True
        self.actor = 0  # thread of control currently running (model SQLite connections are per thread)
        self.pre_mutation = None  # hook(kind, args) called before each primitive (C16 interference)
        self.fail_paths = {}  # path -> exception to raise when a file is *placed* there (fault injection)
        self.after_read = None  # one-shot hook(path) called after a file's content was handed to a reader (C13 race)
        self.hook_on_reads = False  # also give the interference hook a turn before every query (stat/exists/read/list) of the code
        self.two_step_writes = False  # model create/truncate and content write as two crash points (C15)
        self.reverse_listing = False  # directory listing order is unspecified: harnesses may flip it

    # ------------------------------------------------------------------ helpers
    def _tick(self):
        # strictly increasing, in steps below one second (as consecutive writes on a real disk are): several mutations share the same
        # whole second, so code that coarsens the timestamp is exposed
        self.clock += 0.25
        return float(self.clock)

    def _newino(self):
        self.next_ino += 1
        return self.next_ino

    @staticmethod
    def _n(p):
        if not isinstance(p, str):
            raise HarnessGap(f"non-str path {p!r}")
        return posixpath.normpath(p)

    def _resolve(self, p, depth=0):
        p = self._n(p)
        while p in self.links and depth < 8:
            t = self.links[p][0]
            p = self._n(t if t.startswith("/") else posixpath.join(posixpath.dirname(p), t))
            depth += 1
        return p

    def _mut(self, kind, *args):
        """Gate for every primitive mutation. Returns False when the mutation must not be applied (frozen)."""
        if self.frozen:
            return False
        if self.pre_mutation is not None:
            hook, self.pre_mutation = self.pre_mutation, None
            try:
                hook(kind, args)
            finally:
                self.pre_mutation = hook
        if self.crash_at is not None and len(self.log) == self.crash_at:
            if self.freeze_on_crash:
                self.frozen = True
            else:  # interruption that unwinds the stack (SIGINT -> KeyboardInterrupt): handlers and finally blocks still act
                self.crash_at = None
            raise Crash((kind, args))
        self.log.append((kind, *args))
        return True

    def _op(self, kind="read"):
        """a query is about to run: another writer may act first (only when hook_on_reads is set, C16)"""
        if self.hook_on_reads and self.pre_mutation is not None and not self.frozen:
            hook, self.pre_mutation = self.pre_mutation, None
            try:
                hook(kind, ())
            finally:
                self.pre_mutation = hook

    def _tmp(self, parent):
        self.tmpn += 1
        return posixpath.join(parent, f".mtmp{self.tmpn}.tmp")

    def _need_parent(self, p):
        par = posixpath.dirname(p)
        if par not in self.dirs:
            if par in self.files:
                raise NotADirectoryError(errno.ENOTDIR, "Not a directory", p)
            raise FileNotFoundError(errno.ENOENT, "No such file or directory", p)

    def invalidate_cache(self, path=None):
        pass

    # ------------------------------------------------------------------ queries
    def lexists(self, p, **kw):
        self._op()
        p = self._n(p)
        return p in self.files or p in self.links or p in self.dirs

    def exists(self, p, **kw):  # dvc_objects' local fs defines exists() as lexists()
        return self.lexists(p)

    def isfile(self, p):
        self._op()
        return self._resolve(p) in self.files

    def isdir(self, p):
        self._op()
        return self._resolve(p) in self.dirs

    def islink(self, p):
        self._op()
        return self._n(p) in self.links

    def is_hardlink(self, p):
        self._op()
        q = self._resolve(p)
        if q not in self.files:
            raise FileNotFoundError(errno.ENOENT, "No such file or directory", p)
        return self.files[q].nlink > 1

    def stat(self, p, follow=True):
        self._op()
        p0 = self._n(p)
        link = p0 in self.links
        if link and not follow:
            return dict(name=p0, size=len(self.links[p0][0]), type="other", created=0.0, islink=True, mode=_stat.S_IFLNK | 0o777,
                        uid=0, gid=0, mtime=0.0, ino=self.links[p0][1], nlink=1)
        q = self._resolve(p0)
        if q in self.files:
            i = self.files[q]
            return dict(name=p0, size=len(i.data), type="file", created=i.mtime, islink=link, mode=_stat.S_IFREG | i.mode, uid=0, gid=0,
                        mtime=i.mtime, ino=i.ino, nlink=i.nlink)
        if q in self.dirs:
            return dict(name=p0, size=0, type="directory", created=0.0, islink=link, mode=_stat.S_IFDIR | (0o777 & ~self.umask), uid=0,
                        gid=0, mtime=0.0, ino=self.dirs[q], nlink=2)
        raise FileNotFoundError(errno.ENOENT, "No such file or directory", p0)

    def info(self, p, **kw):
        d = self.stat(p, follow=True)
        if d["islink"]:
            d["destination"] = self.links[self._n(p)][0]
        return d

    def size(self, p):
        return self.info(p)["size"]

    def _children(self, p):
        pre = p.rstrip("/") + "/"
        n = len(pre)
        out = []
        for coll in (self.files, self.links, self.dirs):
            for q in coll:
                if q != p and q.startswith(pre) and "/" not in q[n:]:
                    out.append(q)
        return sorted(out, reverse=self.reverse_listing)

    def ls(self, p, detail=False, **kw):
        self._op()
        p = self._resolve(p)
        if p not in self.dirs:
            if p in self.files:
                return [self.info(p)] if detail else [p]
            raise FileNotFoundError(errno.ENOENT, "No such file or directory", p)
        names = self._children(p)
        return [self.info(q) for q in names] if detail else names

    def walk(self, path, maxdepth=None, topdown=True, detail=False, **kw):
        path = self._n(path)
        if path not in self.dirs:
            return
        ents = self._children(path)
        dirs, files = [], []
        for q in ents:
            if q in self.dirs or (q in self.links and self._resolve(q) in self.dirs):
                dirs.append(posixpath.basename(q))
            else:
                files.append(posixpath.basename(q))
        if detail:
            ddict = {d: self.info(posixpath.join(path, d)) for d in dirs}
            fdict = {f: self.info(posixpath.join(path, f)) for f in files}
            yield path, ddict, fdict
            dirs = list(ddict)
        else:
            yield path, dirs, files
        for d in list(dirs):
            sub = posixpath.join(path, d)
            if sub in self.links:
                continue  # os.walk does not follow symlinks to directories
            yield from self.walk(sub, detail=detail)

    def find(self, path, **kw):
        for root, _, files in self.walk(path):
            for f in files:
                yield f"{root}/{f}"

    def du(self, path, total=True, maxdepth=None, **kw):
        sizes = {p: self.info(p)["size"] for p in self.find(path)}
        if self._resolve(path) in self.files:
            sizes = {path: self.info(path)["size"]}
        return sum(sizes.values()) if total else sizes

    def checksum(self, p):
        raise HarnessGap("checksum() not modelled")

    # ------------------------------------------------------------------ primitive mutations
    # Every primitive is one atomic system call: the gate (_mut: interference hook, crash point, freeze) comes FIRST, the kernel's
    # own validity checks and the effect come after it - so whatever another writer did in between is seen by the call itself.
    def _p_mkdir(self, d):
        if not self._mut("mkdir", d):
            return
        if d in self.dirs or d in self.files or d in self.links:
            raise FileExistsError(errno.EEXIST, "File exists", d)
        self._need_parent(d)
        self.dirs[d] = self._newino()

    def _create_checks(self, p):
        q = self._resolve(p)
        self._need_parent(q)
        if q in self.dirs:
            raise IsADirectoryError(errno.EISDIR, "Is a directory", p)
        if q in self.fail_paths:
            raise self.fail_paths[q]
        return q

    def _p_create(self, p, data, mode):
        """open(O_CREAT|O_TRUNC) + write.  With two_step_writes the two are separate crash/interference points (C15): a crash in
        between leaves an empty file under that name.  Torn writes inside one write are outside the model."""
        q0 = self._resolve(p)
        if self.two_step_writes and len(data) > 0:
            if self._mut("create", q0):
                q = self._create_checks(p)
                if q in self.files:
                    self.files[q].data = b""
                    self.files[q].mtime = self._tick()
                else:
                    self.files[q] = Ino(self._newino(), b"", mode & ~self.umask, self._tick())
                if self._mut("write", q, len(data)):
                    if q in self.files:  # (an open descriptor would survive an unlink; the data then goes nowhere visible)
                        self.files[q].data = data
                        self.files[q].mtime = self._tick()
            return
        if self._mut("write", q0, len(data)):
            q = self._create_checks(p)
            if q in self.files:
                i = self.files[q]
                i.data = data
                i.mtime = self._tick()
            else:
                self.files[q] = Ino(self._newino(), data, mode & ~self.umask, self._tick())

    def _p_rename(self, a, b):
        a, b = self._n(a), self._n(b)
        if not self._mut("rename", a, b):
            return
        if a not in self.files and a not in self.links:
            if a in self.dirs:
                raise HarnessGap("rename of a directory is not modelled")
            raise FileNotFoundError(errno.ENOENT, "No such file or directory", a)
        if b in self.dirs:
            raise IsADirectoryError(errno.EISDIR, "Is a directory", b)
        self._need_parent(b)
        if b in self.fail_paths:
            raise self.fail_paths[b]
        if b in self.files:
            self.files.pop(b).nlink -= 1
        self.links.pop(b, None)
        if a in self.links:
            self.links[b] = self.links.pop(a)
        else:
            self.files[b] = self.files.pop(a)

    def _p_unlink(self, p):
        p = self._n(p)
        if not self._mut("unlink", p):
            return
        if p in self.links:
            del self.links[p]
        elif p in self.files:
            self.files.pop(p).nlink -= 1
        elif p in self.dirs:
            raise IsADirectoryError(errno.EISDIR, "Is a directory", p)
        else:
            raise FileNotFoundError(errno.ENOENT, "No such file or directory", p)

    def _p_rmdir(self, p):
        p = self._n(p)
        if not self._mut("rmdir", p):
            return
        if p not in self.dirs:
            if p in self.files or p in self.links:
                raise NotADirectoryError(errno.ENOTDIR, "Not a directory", p)
            raise FileNotFoundError(errno.ENOENT, "No such file or directory", p)
        if self._children(p):
            raise OSError(errno.ENOTEMPTY, "Directory not empty", p)
        del self.dirs[p]

    def _p_chmod(self, p, mode):
        if not self._mut("chmod", self._resolve(p), _stat.S_IMODE(mode)):
            return
        q = self._resolve(p)
        if q in self.files:
            self.files[q].mode = _stat.S_IMODE(mode)
        elif q not in self.dirs:
            raise FileNotFoundError(errno.ENOENT, "No such file or directory", p)

    def _p_link(self, a, b):
        if not self._mut("link", self._resolve(a), self._n(b)):
            return
        a, b = self._resolve(a), self._n(b)
        if a not in self.files:
            raise FileNotFoundError(errno.ENOENT, "No such file or directory", a)
        if self.lexists(b):
            raise FileExistsError(errno.EEXIST, "File exists", b)
        self._need_parent(b)
        if b in self.fail_paths:
            raise self.fail_paths[b]
        self.files[b] = self.files[a]
        self.files[a].nlink += 1

    def _p_symlink(self, target, b):
        b = self._n(b)
        if not self._mut("symlink", target, b):
            return
        if self.lexists(b):
            raise FileExistsError(errno.EEXIST, "File exists", b)
        self._need_parent(b)
        if b in self.fail_paths:
            raise self.fail_paths[b]
        self.links[b] = (target, self._newino())

    # ------------------------------------------------------------------ fsspec-level mutations
    def makedirs(self, p, exist_ok=False):
        p = self._n(p)
        if p in self.dirs:
            if not exist_ok:
                raise FileExistsError(errno.EEXIST, "File exists", p)
            return
        if p in self.files or p in self.links:
            raise FileExistsError(errno.EEXIST, "File exists", p)
        parts = p.split("/")
        for i in range(2, len(parts) + 1):
            d = "/".join(parts[:i])
            if d in self.files:
                raise NotADirectoryError(errno.ENOTDIR, "Not a directory", d)
            if d not in self.dirs:
                try:
                    self._p_mkdir(d)
                except FileExistsError:
                    # os.makedirs: a parent created concurrently is fine; the leaf only with exist_ok
                    if d not in self.dirs or (d == p and not exist_ok):
                        raise

    def mkdir(self, p, create_parents=True, **kw):
        if create_parents:
            self.makedirs(p, exist_ok=False)
        else:
            p = self._n(p)
            if self.lexists(p):
                raise FileExistsError(errno.EEXIST, "File exists", p)
            self._need_parent(p)
            self._p_mkdir(p)

    def write(self, p, data, mode=0o666):
        """harness-level write (user action / set-up)"""
        self._p_create(p, data, mode)

    def read(self, p):
        self._op()
        q = self._resolve(p)
        if q not in self.files:
            if q in self.dirs:
                raise IsADirectoryError(errno.EISDIR, "Is a directory", p)
            raise FileNotFoundError(errno.ENOENT, "No such file or directory", p)
        return self.files[q].data

    def _copy_atomic(self, data, rpath):
        rpath = self._n(rpath)
        parent = posixpath.dirname(rpath)
        self.makedirs(parent, exist_ok=True)
        t = self._tmp(parent)
        self._p_create(t, data, 0o666)
        try:
            self._p_rename(t, rpath)
        except Exception:
            self._p_unlink(t)
            raise

    def put_file(self, lpath, rpath, callback=None, **kw):
        # dvc_objects' local put_file: temp copy in the parent, then os.replace; the temp file is NOT cleaned up on failure
        data = self.read(lpath)
        rpath = self._n(rpath)
        parent = posixpath.dirname(rpath)
        self.makedirs(parent, exist_ok=True)
        t = self._tmp(parent)
        self._p_create(t, data, 0o666)
        self._p_rename(t, rpath)

    def copy(self, a, b, **kw):
        b = self._n(b)
        t = self._tmp(posixpath.dirname(b))
        try:
            self._p_create(t, self.read(a), 0o666)
            self._p_rename(t, b)
        except Exception:
            if self.lexists(t):
                self._p_unlink(t)
            raise

    cp_file = copy

    def get_file(self, rpath, lpath, callback=None, **kw):
        if self.isdir(rpath):
            self.makedirs(lpath, exist_ok=True)
            return
        self._p_create(lpath, self.read(rpath), 0o666)

    def mv(self, a, b, **kw):
        b = self._n(b)
        self.makedirs(posixpath.dirname(b), exist_ok=True)
        self.tmpn += 1
        t = f"{b}.mv{self.tmpn}.tmp"
        self._p_rename(a, t)
        self._p_rename(t, b)

    def rmdir(self, p):
        self._p_rmdir(p)

    def _rmtree(self, p):
        p = self._n(p)
        if p in self.dirs:
            for q in self._children(p):
                self._rmtree(q)
            self._p_rmdir(p)
        else:
            self._p_unlink(p)

    def rm_file(self, p):
        try:
            self._rmtree(p)
        except FileNotFoundError:
            pass

    def rm(self, path, recursive=False, maxdepth=None):
        for p in ([path] if isinstance(path, str) else path):
            self.rm_file(p)

    def open(self, p, mode="r", encoding=None, **kw):
        if "r" in mode and "+" not in mode:
            d = self.read(p)
            if self.after_read is not None:
                hook, self.after_read = self.after_read, None
                hook(self._resolve(p))
            return io.BytesIO(d) if "b" in mode else io.StringIO(d.decode(encoding or "utf-8"))
        fs = self

        class W(io.BytesIO):
            def close(s):
                if not s.closed:
                    data = s.getvalue()
                    fs._p_create(p, data, 0o666)
                super().close()

        class WT(io.StringIO):
            def close(s):
                if not s.closed:
                    fs._p_create(p, s.getvalue().encode(encoding or "utf-8"), 0o666)
                super().close()

        return W() if "b" in mode else WT()

    def pipe_file(self, p, value, **kw):
        self._p_create(p, value, 0o666)

    def cat_file(self, p, start=None, end=None, **kw):
        return self.read(p)[start:end]

    def symlink(self, a, b):
        self._p_symlink(a, b)

    def link(self, a, b):
        if len(self.read(a)) == 0:
            if self.lexists(b):
                raise FileExistsError(errno.EEXIST, "File exists", b)
            self._p_create(b, b"", 0o666)
            return
        self._p_link(a, b)

    def reflink(self, a, b):
        # dvc_objects.fs.system.reflink on Linux: open(dst, O_WRONLY|O_CREAT|O_TRUNC) in place, ioctl(FICLONE) - which fails on
        # filesystems without reflink support, as on this sandbox's - then unlink(dst).  The transient empty file under the final
        # name is observable by a crash (C15) or another writer (C16), so it is modelled as two primitives.
        self.read(a)
        b = self._n(b)
        if self._mut("reflink-create", b):
            self._need_parent(b)
            if b in self.dirs:
                raise IsADirectoryError(errno.EISDIR, "Is a directory", b)
            if b in self.links:
                b = self._resolve(b)
            if b in self.files:
                self.files[b].data = b""
                self.files[b].mtime = self._tick()
            else:
                self.files[b] = Ino(self._newino(), b"", 0o666 & ~self.umask, self._tick())
        if self._mut("reflink-unlink", b):
            if b in self.files:  # system.reflink ignores a failing unlink
                self.files.pop(b).nlink -= 1
        raise OSError(errno.ENOTSUP, "reflink is not supported")

    def chmod(self, p, mode):
        self._p_chmod(p, mode)

    def touch(self, p, truncate=True, **kw):
        q = self._resolve(p)
        if q in self.files and not truncate:
            if self._mut("utime", q):
                self.files[q].mtime = self._tick()
        else:
            self._p_create(p, b"", 0o666)

    def __getattr__(self, name):
        if name.startswith("__"):
            raise AttributeError(name)
        raise ModelGapAttr(f"ModelInner has no method {name!r}")

    # ------------------------------------------------------------------ snapshots (oracle side, not used by repo code)
    def snapshot(self, root):
        """{relative path: (kind, bytes|target, mode, ino, nlink)} below root"""
        root = self._n(root)
        pre = root.rstrip("/") + "/"
        out = {}
        for p, i in self.files.items():
            if p.startswith(pre):
                out[p[len(pre):]] = ("file", i.data, i.mode, i.ino, i.nlink)
        for p, (t, ino) in self.links.items():
            if p.startswith(pre):
                out[p[len(pre):]] = ("link", t, 0o777, ino, 1)
        for p in self.dirs:
            if p.startswith(pre):
                out[p[len(pre):]] = ("dir", None, 0o755, self.dirs[p], 2)
        return out


class ModelLocalFS(LocalFileSystem):
    """dvc_objects' real LocalFileSystem wrapper over the model inner fs (isinstance(fs, LocalFileSystem) stays true)."""

    def __init__(self, inner=None):
        super().__init__(fs=inner or ModelInner())
        self.jobs = 1
        self.hash_jobs = 1

    # thread-pool batch paths -> serial loops
    def exists(self, path, callback=None, batch_size=None):
        if isinstance(path, str):
            return self.fs.exists(path)
        return [self.fs.exists(p) for p in path]

    def info(self, path, callback=None, batch_size=None, return_exceptions=False, **kw):
        if isinstance(path, str):
            return self.fs.info(path)
        out = []
        for p in path:
            try:
                out.append(self.fs.info(p))
            except Exception as e:  # noqa: BLE001
                if not return_exceptions:
                    raise
                out.append(e)
        return out

    def find(self, path, prefix=False, batch_size=None, **kw):
        for p in ([path] if isinstance(path, str) else path):
            yield from self.fs.find(p)

    def getcwd(self):
        return "/"

    def realpath(self, path):
        return self.fs._resolve(path)

    def upload_fobj(self, fobj, to_info, **kw):
        self.makedirs(self.parent(to_info))
        data = fobj.read()
        t = self.fs._tmp(self.parent(to_info))
        self.fs._p_create(t, data, 0o666)
        try:
            self.fs._p_rename(t, to_info)
        except Exception:
            self.fs.rm_file(t)
            raise

    def is_symlink(self, p):
        return self.fs.islink(p)


class ModelRemoteFS(FileSystem):
    """A non-local, traversable remote (plain dvc_objects FileSystem) over its own model inner fs."""

    protocol = "modelremote"
    PARAM_CHECKSUM = "md5"
    CAN_TRAVERSE = True
    TRAVERSE_PREFIX_LEN = 2

    def __init__(self, inner=None, **kw):
        super().__init__(fs=inner or ModelInner(), **kw)
        self.jobs = 1
        self.hash_jobs = 1

    exists = ModelLocalFS.exists
    info = ModelLocalFS.info
    find = ModelLocalFS.find

    def getcwd(self):
        return "/"

    def upload_fobj(self, fobj, to_info, **kw):
        self.makedirs(self.parent(to_info))
        self.fs._copy_atomic(fobj.read(), to_info)

    def put_file(self, from_file, to_info, callback=None, size=None, **kw):
        if hasattr(from_file, "read"):
            self.upload_fobj(from_file, to_info)
        else:
            raise HarnessGap("remote put_file from a local path string: use generic.transfer")


class ModelOS:
    """Stands in for the `os` module inside the dvc-data modules that call the OS directly on local paths."""

    def __init__(self, inner):
        self._i = inner
        self.sep = "/"
        self.name = "posix"
        self.curdir = "."
        i = inner

        class P:
            join = staticmethod(posixpath.join)
            dirname = staticmethod(posixpath.dirname)
            basename = staticmethod(posixpath.basename)
            abspath = staticmethod(posixpath.normpath)
            normpath = staticmethod(posixpath.normpath)
            relpath = staticmethod(posixpath.relpath)
            split = staticmethod(posixpath.split)
            sep = "/"

            @staticmethod
            def exists(p):
                i._op()
                q = i._resolve(p)
                return q in i.files or q in i.dirs

            @staticmethod
            def isdir(p):
                return i.isdir(p)

            @staticmethod
            def isfile(p):
                return i.isfile(p)

            @staticmethod
            def islink(p):
                return i.islink(p)

            @staticmethod
            def getsize(p):
                return i.info(p)["size"]

        self.path = P()

    def chmod(self, p, mode):
        self._i._p_chmod(p, mode)

    def stat(self, p, follow_symlinks=True):
        d = self._i.stat(p, follow=follow_symlinks)

        class S:
            pass

        s = S()
        s.st_mode, s.st_ino, s.st_size, s.st_mtime, s.st_nlink, s.st_ctime = d["mode"], d["ino"], d["size"], d["mtime"], d["nlink"], d["created"]
        s.st_uid = s.st_gid = 0
        return s

    def lstat(self, p):
        return self.stat(p, follow_symlinks=False)

    def rename(self, a, b):
        self._i._p_rename(a, b)

    replace = rename

    def unlink(self, p):
        self._i._p_unlink(p)

    remove = unlink

    def readlink(self, p):
        return self._i.links[self._i._n(p)][0]

    def umask(self, m):
        return self._i.umask

    def cpu_count(self):
        return 1

    def fspath(self, p):
        return p

    def makedirs(self, p, mode=0o777, exist_ok=False):
        self._i.makedirs(p, exist_ok=exist_ok)

    def mkdir(self, p, mode=0o777):
        self._i.mkdir(p, create_parents=False)

    def getcwd(self):
        return "/"

    def __getattr__(self, name):
        raise ModelGapAttr(f"ModelOS has no attribute {name!r}")


def localfs_info_for(inner):
    """model of dvc_data.fsutils._localfs_info (lstat, then stat through a symlink)"""

    def _localfs_info(path):
        d = inner.stat(path, follow=False)
        if d["islink"]:
            dest = inner.links[inner._n(path)][0]
            d = inner.stat(path, follow=True)
            d["islink"] = True
            d["destination"] = dest
        return d

    return _localfs_info
