"""CrossHair launcher used for every Engine-A job.

* disables callee short-circuiting (CrossHair would otherwise replace calls to repo functions by fresh
  symbolic return values, and paths then end UNKNOWN instead of being executed);
* opens the per-job path journal *before* CrossHair installs its side-effect audit hook and hands the
  descriptor to the harness library through the environment.
"""
import os
import sys

jpath = os.environ.get("VF_JOURNAL")
if jpath:
    fd = os.open(jpath, os.O_WRONLY | os.O_CREAT | os.O_APPEND, 0o644)
    os.environ["VF_JOURNAL_FD"] = str(fd)

import crosshair.core as core  # noqa: E402

_orig_cs = core.consider_shortcircuit


def _never_interpret(fn, sig, bound, subconditions, allow_interpretation):
    # always execute the real callee body; only functions CrossHair itself registers as "skip body"
    # (nondeterministic stdlib calls such as time.time) keep their uninterpreted-return treatment
    if not allow_interpretation:
        return _orig_cs(fn, sig, bound, subconditions, allow_interpretation)
    return None


core.consider_shortcircuit = _never_interpret

# CrossHair bypasses functools.lru_cache/cache wrappers while tracing (every call runs the wrapped body).  Memoisation is real
# behaviour of the code under analysis - a stale memo is a bug the checks must be able to see - so that patch is removed here;
# vf.env.reset_process_state() clears dvc-data's module-level memo tables at the start of every path instead.
import crosshair.core_and_libs  # noqa: E402,F401  (runs the library registrations)
from functools import _lru_cache_wrapper  # noqa: E402

core._PATCH_REGISTRATIONS.pop(_lru_cache_wrapper.__call__, None)

from crosshair.main import main  # noqa: E402

sys.argv[0] = "crosshair"
main()
