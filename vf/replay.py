"""Run one harness function concretely (no CrossHair): used to replay counterexamples, for smoke runs and
to measure which repo functions a harness actually enters.

    VF_MODE=concrete|real VF_CUBE='{...}' python -m vf.replay --module vf.harness.x --func h --args '{...}'

Last stdout line is a JSON object {"outcome": "ok"|"viol"|"false"|"gap"|"error", ...}.
"""
import argparse
import hashlib
import importlib
import inspect
import json
import sys
import traceback


def _profile_collect(store):
    import os

    repo_src = os.path.realpath("/repo/src") + os.sep

    def prof(frame, event, arg):
        if event != "call":
            return
        code = frame.f_code
        fn = code.co_filename
        if fn.startswith(repo_src):
            store.add((fn[len(repo_src):], code.co_qualname if hasattr(code, "co_qualname") else code.co_name, code.co_firstlineno))

    return prof


def dec_args(args):
    def dec(v):
        if isinstance(v, dict) and set(v) == {"__bytes__"}:
            return bytes.fromhex(v["__bytes__"])
        if isinstance(v, list):
            return [dec(x) for x in v]
        return v
    return {k: dec(v) for k, v in args.items()}


def run(module, func, args, profile=False):
    from vf import hlib

    args = dec_args(args)

    mod = importlib.import_module(module)
    fn = getattr(mod, func)
    entered = set()
    out = {}
    try:
        if profile:
            sys.setprofile(_profile_collect(entered))
        try:
            r = fn(**args)
        finally:
            if profile:
                sys.setprofile(None)
        out = {"outcome": "ok" if r else "false", "returned": repr(r)}
    except hlib.Viol as v:
        out = {"outcome": "viol", "tag": v.tag, "detail": repr(v.detail)}
    except hlib.HarnessGap as g:
        out = {"outcome": "gap", "detail": repr(g)}
    except Exception as e:  # noqa: BLE001
        out = {"outcome": "error", "exc": f"{type(e).__name__}: {e}", "tb": traceback.format_exc(limit=12)}
    if profile:
        funcs = []
        cache = {}
        for fn_, qual, line in sorted(entered):
            try:
                if fn_ not in cache:
                    with open("/repo/src/" + fn_, encoding="utf-8") as f:
                        cache[fn_] = f.read().splitlines()
                lines = cache[fn_]
                # hash the source block of the function (until dedent)
                start = line - 1
                blk = inspect.getblock(lines[start:]) if start < len(lines) else []
                h = hashlib.sha256("\n".join(blk).encode()).hexdigest()[:16]
            except Exception:  # noqa: BLE001
                h = "?"
            funcs.append({"file": fn_, "func": qual, "line": line, "src_sha256_16": h})
        out["functions"] = funcs
    return out


def main():
    ap = argparse.ArgumentParser()
    ap.add_argument("--module", required=True)
    ap.add_argument("--func", required=True)
    ap.add_argument("--args", default="{}")
    ap.add_argument("--profile", action="store_true")
    a = ap.parse_args()
    out = run(a.module, a.func, json.loads(a.args), a.profile)
    print(json.dumps(out))


if __name__ == "__main__":
    main()
