"""Differential validation of the model environment: the same scenario (real dvc-data calls + user actions) is run on
ModelEnv and on RealEnv (real disk, real SQLite state) and every observable is compared.

    python -m vf.validate_model            -> exit 0 if all scenarios agree, 2 otherwise (a model bug blocks the checks)
"""
import json
import posixpath
import sys
import traceback

from vf.env import ModelEnv, RealEnv

CONT = {"a": b"A\n", "d/b": b"B\r\nB2\r\n", "d/e/c": b"", "d/dup": b"A\n", "é x": b"\x00\x01bin"}


def norm_snapshot(env, path, fs=None):
    snap = env.snapshot(path, fs=fs)
    inos = {}
    out = {}
    for rel in sorted(snap):
        kind, data, mode, ino, nlink = snap[rel]
        if kind == "link":
            data = data.replace(env.root, "<R>")
        cls = inos.setdefault(ino, len(inos))
        if rel.endswith(".tmp"):
            rel = posixpath.join(posixpath.dirname(rel), "<tmp>")
        out[rel] = [kind, data.hex() if isinstance(data, bytes) else data, oct(mode) if kind == "file" else None,
                    cls if kind == "file" else None, nlink if kind == "file" else None]
    return out


def exc_name(fn, *a, **k):
    try:
        r = fn(*a, **k)
        return ["ok", r if isinstance(r, (bool, int, type(None), str)) else type(r).__name__]
    except Exception as e:  # noqa: BLE001
        return ["raised", type(e).__name__]


def populate(env, root, keys=None):
    for k, v in CONT.items():
        if keys is None or k in keys:
            env.write(root + "/" + k, v)


def sc_build_transfer_checkout(env, cls="local", link="copy", with_state=False):
    from dvc_data.hashfile.build import build
    from dvc_data.hashfile.checkout import checkout
    from dvc_data.hashfile.transfer import transfer

    obs = {}
    st = env.state() if with_state else None
    cfg = {"type": [link]}
    if st is not None:
        cfg["state"] = st
    cache = env.local_odb("cache", **cfg) if cls == "local" else env.base_odb("cache", **cfg)
    populate(env, env.p("src"))
    env.mkdir(env.p("src", "emptydir"))
    staging, meta, obj = build(cache, env.p("src"), env.fs, "md5")
    obs["oid"] = obj.oid
    obs["meta"] = [meta.size, meta.nfiles, meta.isdir]
    res = transfer(staging, cache, {obj.hash_info}, shallow=False)
    obs["transferred"] = sorted(h.value for h in res.transferred)
    obs["failed"] = sorted(h.value for h in res.failed)
    obs["cache"] = norm_snapshot(env, cache.path)
    r = exc_name(checkout, env.p("out"), env.fs, obj, cache, force=False, state=st)
    obs["checkout1"] = r
    obs["out1"] = norm_snapshot(env, env.p("out"))
    obs["checkout2"] = exc_name(checkout, env.p("out"), env.fs, obj, cache, force=False, state=st)
    # user edits: uncached edit must be refused without force
    env.remove(env.p("out", "a"))
    env.write(env.p("out", "a"), b"user edit\n")
    obs["checkout3"] = exc_name(checkout, env.p("out"), env.fs, obj, cache, force=False, state=st)
    obs["out3"] = norm_snapshot(env, env.p("out"))
    obs["checkout4"] = exc_name(checkout, env.p("out"), env.fs, obj, cache, force=True, state=st)
    obs["out4"] = norm_snapshot(env, env.p("out"))
    obs["relink"] = exc_name(checkout, env.p("out"), env.fs, obj, cache, force=True, relink=True, state=st)
    obs["out5"] = norm_snapshot(env, env.p("out"))
    obs["cache_end"] = norm_snapshot(env, cache.path)
    # integrity: tamper with an object, then query
    oid_a = env.md5(CONT["a"])
    pa = cache.oid_to_path(oid_a)
    env.chmod(pa, 0o644)
    env.write(pa, b"tampered")
    obs["oids_exist"] = sorted(cache.oids_exist([oid_a, env.md5(CONT["d/b"])]))
    obs["cache_after_tamper"] = sorted(norm_snapshot(env, cache.path))
    return obs


def sc_gc(env, cls="local"):
    from dvc_data.hashfile.gc import gc
    from dvc_data.hashfile.hash_info import HashInfo

    from dvc_data.hashfile.build import build
    from dvc_data.hashfile.transfer import transfer

    cache = env.local_odb("cache") if cls == "local" else env.base_odb("cache")
    populate(env, env.p("src"))
    staging, meta, obj = build(cache, env.p("src"), env.fs, "md5")
    transfer(staging, cache, {obj.hash_info}, shallow=False)
    env.write(env.p("loose"), b"loose\n")
    s2, _, o2 = build(cache, env.p("loose"), env.fs, "md5")
    transfer(s2, cache, {o2.hash_info})
    obs = {"before": sorted(norm_snapshot(env, cache.path))}
    obs["dry"] = exc_name(gc, cache, [obj.hash_info], dry=True)
    obs["after_dry"] = sorted(norm_snapshot(env, cache.path))
    obs["gc_shallow"] = exc_name(gc, cache, [HashInfo("md5", env.md5(CONT["a"])), o2.hash_info])
    obs["after"] = sorted(norm_snapshot(env, cache.path))
    return obs


def sc_index(env, link="copy"):
    from dvc_data.index import DataIndex, DataIndexEntry, ObjectStorage
    from dvc_data.index.build import build as ibuild
    from dvc_data.index.checkout import apply, compare
    from dvc_data.index.save import md5 as imd5
    from dvc_data.index.save import save

    cache = env.local_odb("cache", type=[link])
    populate(env, env.p("src"))
    env.chmod(env.p("src", "a"), 0o755)
    idx = ibuild(env.p("src"), env.fs)
    obs = {"keys": sorted("/".join(k) for k in idx.keys())}
    idx2 = imd5(idx)
    idx2.storage_map.add_cache(ObjectStorage((), cache))
    n = save(idx2)
    obs["saved"] = n
    obs["cache"] = norm_snapshot(env, cache.path)
    # checkout into a prior workspace with a nested directory in the way of a file and a stray file
    env.write(env.p("ws", "a", "nested", "f"), b"in the way")
    env.write(env.p("ws", "stray"), b"stray")
    old = ibuild(env.p("ws"), env.fs)
    diff = compare(old, idx2, delete=True)
    obs["plan"] = {k: sorted("/".join(e.key) for e in getattr(diff, k)) for k in ("files_delete", "dirs_delete", "files_create", "dirs_create", "files_chmod")}
    errs = []
    obs["apply"] = exc_name(apply, diff, env.p("ws"), env.fs, onerror=lambda *a: errs.append(1), update_meta=False)
    obs["errs"] = len(errs)
    obs["ws"] = norm_snapshot(env, env.p("ws"))
    return obs


def sc_state(env):
    from dvc_data.hashfile.hash import hash_file

    st = env.state()
    p = env.p("f")
    env.write(p, b"one")
    obs = {}
    m, h = hash_file(p, env.fs, "md5", state=st)
    obs["h1"] = h.value
    obs["get1"] = exc_name(lambda: st.get(p, env.fs)[1].value)
    env.write(p, b"two!")
    obs["get2"] = exc_name(lambda: st.get(p, env.fs)[1])
    m, h = hash_file(p, env.fs, "md5", state=st)
    obs["h2"] = h.value
    env.replace(p, b"thr")
    obs["get3"] = exc_name(lambda: st.get(p, env.fs)[1])
    obs["many"] = [[x[0].replace(env.root, "<R>"), x[2].value if x[2] else None] for x in st.get_many([p, env.p("nope")], env.fs, {})]
    st.save_link(p, env.fs)
    obs["unused0"] = st.get_unused_links([p], env.fs)
    obs["unused1"] = st.get_unused_links([], env.fs)
    env.touch(p)
    obs["unused2"] = st.get_unused_links([], env.fs)
    return obs


def sc_fsops(env):
    """raw filesystem behaviour through the dvc_objects wrapper"""
    fs = env.fs
    obs = {}
    env.write(env.p("x", "f"), b"data")
    env.write(env.p("x", "e"), b"")
    obs["ls"] = sorted(p.replace(env.root, "<R>") for p in fs.ls(env.p("x")))
    obs["walk"] = [[r.replace(env.root, "<R>"), sorted(d), sorted(f)] for r, d, f in fs.walk(env.p("x"))]
    obs["find_file"] = list(fs.find(env.p("x", "f")))
    obs["isfile"] = [fs.isfile(env.p("x", "f")), fs.isdir(env.p("x")), fs.exists(env.p("nope")), fs.isfile(env.p("x"))]
    fs.link(env.p("x", "f"), env.p("x", "hl"))
    fs.link(env.p("x", "e"), env.p("x", "hle"))
    fs.symlink(env.p("x", "f"), env.p("x", "sl"))
    obs["links"] = [fs.is_hardlink(env.p("x", "hl")), fs.is_hardlink(env.p("x", "hle")), fs.is_symlink(env.p("x", "sl")), fs.iscopy(env.p("x", "f")),
                    fs.info(env.p("x", "sl"))["type"], fs.info(env.p("x", "sl"))["size"], fs.info(env.p("x", "sl"))["islink"]]
    obs["link_exists"] = exc_name(fs.link, env.p("x", "f"), env.p("x", "hl"))
    obs["symlink_exists"] = exc_name(fs.symlink, env.p("x", "f"), env.p("x", "sl"))
    obs["rmdir_nonempty"] = exc_name(fs.rmdir, env.p("x"))
    obs["rmdir_missing"] = exc_name(fs.rmdir, env.p("nope"))
    obs["remove_missing"] = exc_name(fs.remove, env.p("nope"))
    obs["info_missing"] = exc_name(fs.info, env.p("nope"))
    obs["open_missing"] = exc_name(fs.open, env.p("nope"), "rb")
    obs["makedirs_existing"] = exc_name(fs.makedirs, env.p("x"))
    obs["mkdir_over_file"] = exc_name(fs.makedirs, env.p("x", "f", "sub"))
    fs.copy(env.p("x", "f"), env.p("y", "c"))
    fs.mv(env.p("y", "c"), env.p("y", "m"))
    with fs.open(env.p("y", "w"), "wb") as f:
        f.write(b"w")
    fs.remove([env.p("x", "hl"), env.p("x", "nope")])
    obs["snap"] = norm_snapshot(env, env.root)
    return obs


SCENARIOS = [
    ("fsops", sc_fsops, {}),
    ("state", sc_state, {}),
    ("btc-local-copy", sc_build_transfer_checkout, dict(cls="local", link="copy")),
    ("btc-local-hardlink-state", sc_build_transfer_checkout, dict(cls="local", link="hardlink", with_state=True)),
    ("btc-local-symlink", sc_build_transfer_checkout, dict(cls="local", link="symlink")),
    ("btc-base-copy", sc_build_transfer_checkout, dict(cls="base", link="copy")),
    ("btc-base-hardlink", sc_build_transfer_checkout, dict(cls="base", link="hardlink", with_state=True)),
    ("gc-local", sc_gc, dict(cls="local")),
    ("gc-base", sc_gc, dict(cls="base")),
    ("index-copy", sc_index, dict(link="copy")),
    ("index-hardlink", sc_index, dict(link="hardlink")),
]


def run(only=None, verbose=False):
    bad = 0
    for name, fn, kw in SCENARIOS:
        if only and name not in only:
            continue
        res = {}
        for cls in (ModelEnv, RealEnv):
            env = cls()
            try:
                res[cls.__name__] = fn(env, **kw)
            except Exception as e:  # noqa: BLE001
                res[cls.__name__] = {"EXC": f"{type(e).__name__}: {e}", "tb": traceback.format_exc(limit=8) if verbose else ""}
            finally:
                env.close()
        a = json.loads(json.dumps(res["ModelEnv"], default=repr).replace(ModelEnv().root, "<R>"))
        b = json.loads(json.dumps(res["RealEnv"], default=repr))
        if a == b:
            print(f"model-validation {name}: agree ({len(a)} observables)")
        else:
            bad += 1
            print(f"model-validation {name}: DISAGREE")
            for k in sorted(set(a) | set(b)):
                if a.get(k) != b.get(k):
                    print(f"   {k}:\n     model={json.dumps(a.get(k))[:1500]}\n     real ={json.dumps(b.get(k))[:1500]}")
    return bad


if __name__ == "__main__":
    bad = run(only=set(sys.argv[1:]) - {"-v"} or None, verbose="-v" in sys.argv)
    sys.exit(2 if bad else 0)
