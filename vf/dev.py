"""Developer helper: run one harness/cube under CrossHair and print verdict + path statistics.
   python -m vf.dev MODULE FUNC --cube '{}' -t 60 [-v]"""
import argparse, json, os, re, subprocess, sys, tempfile, time
from vf import runner


def main():
    ap = argparse.ArgumentParser()
    ap.add_argument("module"); ap.add_argument("func")
    ap.add_argument("--cube", default="{}"); ap.add_argument("-t", type=float, default=60)
    ap.add_argument("-p", type=float, default=60); ap.add_argument("-v", action="store_true")
    ap.add_argument("--suppress", default="")
    a = ap.parse_args()
    file, line, fn = runner._func_line(a.module, a.func)
    j = tempfile.mktemp(prefix="vfj-", dir="/var/tmp")
    env = runner._base_env(json.loads(a.cube), 0, "sym", {"VF_JOURNAL": j})
    if a.suppress:
        env["VF_SUPPRESS"] = a.suppress
    cmd = [sys.executable, "-m", "vf.chlaunch", "check", "--report_all", "--analysis_kind", "PEP316",
           "--per_condition_timeout", str(a.t), "--per_path_timeout", str(a.p), "--unblock", "sqlite3.connect", "sqlite3.connect/handle", "-v", f"{file}:{line}"]
    t0 = time.time()
    p = subprocess.run(cmd, env=env, cwd=runner.VERIF, capture_output=True, text=True)
    print(p.stdout.strip()[-3000:])
    stats = [l for l in p.stderr.splitlines() if "Path tree stats" in l]
    if stats:
        print(stats[-1].split("analyze_calltree()")[-1].strip())
    its = [l for l in p.stderr.splitlines() if "Number of iterations" in l]
    if its:
        print(its[-1].split("analyze_calltree()")[-1].strip())
    if a.v:
        print(p.stderr[-6000:])
    n = d = 0
    seen = set()
    if os.path.exists(j):
        for ln in open(j):
            n += 1; seen.add(ln)
        os.unlink(j)
    print(f"journal paths={n} distinct={len(seen)} wall={time.time()-t0:.1f}s")


main()
