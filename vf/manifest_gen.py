"""Regenerates /verif/MANIFEST.json from the property specs that exist (python -m vf.manifest_gen)."""
import importlib
import json
import os

VERIF = os.path.dirname(os.path.dirname(os.path.abspath(__file__)))
ALL = [f"C{i:02d}" for i in range(1, 21)]
TEXT = {}
PENDING_REASON = "check not built yet in this revision (solver harness under construction; see DESIGN.md section 6)"


def main():
    checks, na, engines = [], [], {}
    for pid in ALL:
        try:
            mod = importlib.import_module(f"vf.props.{pid.lower()}")
        except ModuleNotFoundError:
            na.append({"property_id": pid, "reason": PENDING_REASON})
            continue
        spec = mod.SPEC
        meta = getattr(mod, "MANIFEST", {})
        checks.append({
            "property_id": pid,
            "quick_cmd": f"./check {pid} --tier quick",
            "thorough_cmd": f"./check {pid} --tier thorough",
            "evidence_file": f"/verif/evidence/{pid}.json",
            "replay_cmd_template": f"./check {pid} --replay {{path}}",
            "engine": "crosshair-z3" + ("+z3-direct" if any(h.engine == "B" for h in spec.harnesses) else ""),
            "level_claimed": {
                "category": "other",
                "text": meta.get("level_text") or (
                    "Bounded symbolic verification of the real functions: " + spec.explanation +
                    " Cubes whose path tree CrossHair exhausts are bounded proofs; the rest is reported as not exhausted."),
                "design_ref": f"DESIGN.md section 6 ({pid})",
            },
            "level_note": meta.get("level_note") or ("Assumes: " + "; ".join(spec.assumptions) + ". Outside the bound: " + "; ".join(spec.outside)),
            "technique": meta.get("technique") or "symbolic execution of the real Python code (CrossHair) with z3 deciding every branch; counterexamples replayed concretely",
        })
    man = {
        "version": 1,
        "setup_cmd": "./setup.sh",
        "hooks": {
            "guard": "DVC_DATA_VERIF",
            "enable": "no source hooks are needed: harnesses import the live /repo/src modules (editable install) and inject the model environment from the harness process",
            "baseline_off_cmd": "cd /repo && /venv/bin/python -m pytest -ra -q -p no:cacheprovider --timeout=900 --continue-on-collection-errors",
            "source_commits": [],
            "add_only": True,
        },
        "engines": [
            {"name": "crosshair-z3", "path": "/verif/vf/runner.py", "serves_properties": [c["property_id"] for c in checks],
             "kind_free_text": "Engine A: CrossHair 0.0.110 symbolic execution of the real dvc-data functions, z3 decides each branch; cube-and-conquer over 16 processes; path journal; replay before report"},
            {"name": "z3-direct", "path": "/verif/vf/symshim.py", "serves_properties": ["C14"],
             "kind_free_text": "Engine B: real function executed on z3-valued duck types (bytes as bit-vectors, exact Float64), negated property discharged by z3"},
        ],
        "checks": checks,
        "not_applicable": na,
        "notes": "All checks rebuild from /repo's working tree (imports of the live modules). Exit 0 held / 1 VIOLATION (replayed) / 2 harness error or inconclusive.",
    }
    with open(os.path.join(VERIF, "MANIFEST.json"), "w") as f:
        json.dump(man, f, indent=1)
    print(f"MANIFEST: {len(checks)} checks, {len(na)} not applicable")


if __name__ == "__main__":
    main()
