"""Engine B: run a real Python function on duck-typed z3 values (bytes as bit-vectors, exact IEEE-754 doubles) and
collect, per execution path, the path condition and the returned z3 term.  Forking on a symbolic truth value is done by
re-execution with a decision prefix; infeasible prefixes are pruned with z3.  Unsupported operations raise Unsupported
(=> inconclusive), never a verdict."""
import time

import z3


class Unsupported(Exception):
    pass


class Ctx:
    def __init__(self):
        self.prefix = []
        self.pos = 0
        self.path = []
        self.solver_s = 0.0
        self.queries = 0


CTX = Ctx()


def decide(cond):
    c = CTX
    if c.pos < len(c.prefix):
        v = c.prefix[c.pos]
    else:
        v = True
        c.prefix.append(v)
    c.pos += 1
    c.path.append(cond if v else z3.Not(cond))
    return v


class SBool:
    def __init__(self, e):
        self.e = e

    def __bool__(self):
        return decide(self.e)


def _bv32(x):
    if isinstance(x, SInt):
        return z3.ZeroExt(16, x.e)
    if isinstance(x, bool):
        raise Unsupported("bool in integer arithmetic")
    if isinstance(x, int):
        if not 0 <= x < 2 ** 31:
            raise Unsupported("integer constant out of range")
        return z3.BitVecVal(x, 32)
    raise Unsupported(f"integer operation with {type(x)}")


def _f64(x):
    if isinstance(x, SFloat):
        return x.e
    if isinstance(x, SInt):
        return z3.fpSignedToFP(z3.RNE(), z3.ZeroExt(16, x.e), z3.Float64())
    if isinstance(x, (int, float)) and not isinstance(x, bool):
        return z3.FPVal(float(x), z3.Float64())
    raise Unsupported(f"float operation with {type(x)}")


class SInt:
    """small non-negative count held in a 16-bit vector (arithmetic is done in 32 bits, results must stay below 2**16)"""

    def __init__(self, e):
        self.e = e

    def __float__(self):
        raise Unsupported("float(SInt) must go through the patched float()")

    def __index__(self):
        raise Unsupported("symbolic int used as index")

    def __bool__(self):
        return decide(self.e != 0)

    # int / int is a correctly rounded quotient; for operands below 2**53 it equals float(a) / float(b)
    def __truediv__(self, o):
        return SFloat(z3.fpDiv(z3.RNE(), _f64(self), _f64(o)))

    def __rtruediv__(self, o):
        return SFloat(z3.fpDiv(z3.RNE(), _f64(o), _f64(self)))

    def _arith(self, o, f, rev=False):
        a, b = (_bv32(o), _bv32(self)) if rev else (_bv32(self), _bv32(o))
        return SInt(z3.Extract(15, 0, f(a, b)))  # callers keep values small (block length <= 512, factors <= 100)

    def __add__(self, o):
        return self._arith(o, lambda a, b: a + b)

    __radd__ = __add__

    def __mul__(self, o):
        if isinstance(o, float):
            return SFloat(z3.fpMul(z3.RNE(), _f64(self), _f64(o)))
        return self._arith(o, lambda a, b: a * b)

    __rmul__ = __mul__

    def __sub__(self, o):
        return self._arith(o, lambda a, b: a - b)

    def __rsub__(self, o):
        return self._arith(o, lambda a, b: a - b, rev=True)

    def _cmp(self, o, f_int, f_fp):
        if isinstance(o, (float, SFloat)):
            return SBool(f_fp(_f64(self), _f64(o)))
        return SBool(f_int(_bv32(self), _bv32(o)))

    def __le__(self, o):
        return self._cmp(o, z3.ULE, z3.fpLEQ)

    def __lt__(self, o):
        return self._cmp(o, z3.ULT, z3.fpLT)

    def __ge__(self, o):
        return self._cmp(o, z3.UGE, z3.fpGEQ)

    def __gt__(self, o):
        return self._cmp(o, z3.UGT, z3.fpGT)

    def __eq__(self, o):
        return self._cmp(o, lambda a, b: a == b, z3.fpEQ)

    def __ne__(self, o):
        return self._cmp(o, lambda a, b: a != b, lambda a, b: z3.Not(z3.fpEQ(a, b)))

    __hash__ = None


class SFloat:
    def __init__(self, e):
        self.e = e

    def __truediv__(self, o):
        return SFloat(z3.fpDiv(z3.RNE(), self.e, _f64(o)))

    def __rtruediv__(self, o):
        return SFloat(z3.fpDiv(z3.RNE(), _f64(o), self.e))

    def __mul__(self, o):
        return SFloat(z3.fpMul(z3.RNE(), self.e, _f64(o)))

    __rmul__ = __mul__

    def _cmp(self, o, f):
        return SBool(f(self.e, _f64(o)))

    def __le__(self, o):
        return self._cmp(o, z3.fpLEQ)

    def __lt__(self, o):
        return self._cmp(o, z3.fpLT)

    def __ge__(self, o):
        return self._cmp(o, z3.fpGEQ)

    def __gt__(self, o):
        return self._cmp(o, z3.fpGT)


class SBytes:
    """bytes of concrete length with symbolic elements; `guards` mark elements deleted by translate()"""

    def __init__(self, elems, guards=None):
        self.elems = elems
        self.guards = guards or [z3.BoolVal(True)] * len(elems)

    def _plain(self):
        return all(z3.is_true(g) for g in self.guards)

    def __len__(self):
        if self._plain():
            return len(self.elems)
        raise Unsupported("symbolic length: use the patched len()")

    def __bool__(self):
        if self._plain():
            return len(self.elems) > 0
        raise Unsupported("truth value of filtered bytes")

    def __contains__(self, item):
        if not (isinstance(item, bytes) and len(item) == 1 and self._plain()):
            raise Unsupported("only single-byte containment on unfiltered bytes")
        return bool(SBool(z3.Or([e == item[0] for e in self.elems]) if self.elems else z3.BoolVal(False)))

    def __getitem__(self, k):
        if isinstance(k, slice) and self._plain():
            return SBytes(self.elems[k])
        raise Unsupported("indexing")

    def translate(self, table, delete=b""):
        if table is not None:
            raise Unsupported("translate with a table")
        keep = [z3.And(g, z3.And([e != d for d in delete])) for e, g in zip(self.elems, self.guards)]
        return SBytes(self.elems, keep)

    def symlen(self):
        tot = z3.BitVecVal(0, 16)
        for g in self.guards:
            tot = tot + z3.If(g, z3.BitVecVal(1, 16), z3.BitVecVal(0, 16))
        return tot


def explore(run_once, timeout_s):
    """run_once() executes the function under the current decision prefix and returns a z3 Bool term (its result).
    Yields (path_condition_list, result_term) for every feasible path."""
    stack = [[]]
    t_end = time.time() + timeout_s
    while stack:
        if time.time() > t_end:
            raise TimeoutError
        CTX.prefix = stack.pop()
        CTX.pos = 0
        CTX.path = []
        n0 = len(CTX.prefix)
        out = run_once()
        for i in range(n0, len(CTX.prefix)):
            alt = CTX.prefix[:i] + [False]
            s = z3.Solver()
            s.set("timeout", 60000)
            s.add(*CTX.path[:i])
            s.add(CTX.path[i].arg(0) if z3.is_not(CTX.path[i]) else z3.Not(CTX.path[i]))
            t = time.time()
            r = s.check()
            CTX.solver_s += time.time() - t
            CTX.queries += 1
            if str(r) != "unsat":
                stack.append(alt)
        yield list(CTX.path), out
