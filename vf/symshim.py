"""Engine B: run a real Python function on duck-typed z3 values (bytes as bit-vectors, exact IEEE-754 doubles) and
collect, per execution path, the path condition and the returned z3 term.  Forking on a symbolic truth value is done by
re-execution with a decision prefix; infeasible prefixes are pruned with z3.  Unsupported operations raise Unsupported
(=> inconclusive), never a verdict."""
import time

import z3


class Unsupported(Exception):
    pass


class Ctx:
    def __init__(self):
        self.prefix = []
        self.pos = 0
        self.path = []
        self.solver_s = 0.0
        self.queries = 0


CTX = Ctx()


def decide(cond):
    c = CTX
    if c.pos < len(c.prefix):
        v = c.prefix[c.pos]
    else:
        v = True
        c.prefix.append(v)
    c.pos += 1
    c.path.append(cond if v else z3.Not(cond))
    return v


class SBool:
    def __init__(self, e):
        self.e = e

    def __bool__(self):
        return decide(self.e)


class SInt:
    """non-negative count held in a 16-bit vector"""

    def __init__(self, e):
        self.e = e

    def __float__(self):
        raise Unsupported("float(SInt) must go through the patched float()")

    def __index__(self):
        raise Unsupported("symbolic int used as index")


class SFloat:
    def __init__(self, e):
        self.e = e

    def __truediv__(self, o):
        if isinstance(o, SFloat):
            oe = o.e
        elif isinstance(o, SInt):
            oe = z3.fpSignedToFP(z3.RNE(), z3.ZeroExt(16, o.e), z3.Float64())
        elif isinstance(o, int):
            oe = z3.FPVal(float(o), z3.Float64())
        else:
            raise Unsupported(f"division by {type(o)}")
        return SFloat(z3.fpDiv(z3.RNE(), self.e, oe))

    def _cmp(self, o, f):
        if isinstance(o, (int, float)):
            return SBool(f(self.e, z3.FPVal(float(o), z3.Float64())))
        if isinstance(o, SFloat):
            return SBool(f(self.e, o.e))
        raise Unsupported(f"compare with {type(o)}")

    def __le__(self, o):
        return self._cmp(o, z3.fpLEQ)

    def __lt__(self, o):
        return self._cmp(o, z3.fpLT)

    def __ge__(self, o):
        return self._cmp(o, z3.fpGEQ)

    def __gt__(self, o):
        return self._cmp(o, z3.fpGT)


class SBytes:
    """bytes of concrete length with symbolic elements; `guards` mark elements deleted by translate()"""

    def __init__(self, elems, guards=None):
        self.elems = elems
        self.guards = guards or [z3.BoolVal(True)] * len(elems)

    def _plain(self):
        return all(z3.is_true(g) for g in self.guards)

    def __len__(self):
        if self._plain():
            return len(self.elems)
        raise Unsupported("symbolic length: use the patched len()")

    def __bool__(self):
        if self._plain():
            return len(self.elems) > 0
        raise Unsupported("truth value of filtered bytes")

    def __contains__(self, item):
        if not (isinstance(item, bytes) and len(item) == 1 and self._plain()):
            raise Unsupported("only single-byte containment on unfiltered bytes")
        return bool(SBool(z3.Or([e == item[0] for e in self.elems]) if self.elems else z3.BoolVal(False)))

    def __getitem__(self, k):
        if isinstance(k, slice) and self._plain():
            return SBytes(self.elems[k])
        raise Unsupported("indexing")

    def translate(self, table, delete=b""):
        if table is not None:
            raise Unsupported("translate with a table")
        keep = [z3.And(g, z3.And([e != d for d in delete])) for e, g in zip(self.elems, self.guards)]
        return SBytes(self.elems, keep)

    def symlen(self):
        tot = z3.BitVecVal(0, 16)
        for g in self.guards:
            tot = tot + z3.If(g, z3.BitVecVal(1, 16), z3.BitVecVal(0, 16))
        return tot


def explore(run_once, timeout_s):
    """run_once() executes the function under the current decision prefix and returns a z3 Bool term (its result).
    Yields (path_condition_list, result_term) for every feasible path."""
    stack = [[]]
    t_end = time.time() + timeout_s
    while stack:
        if time.time() > t_end:
            raise TimeoutError
        CTX.prefix = stack.pop()
        CTX.pos = 0
        CTX.path = []
        n0 = len(CTX.prefix)
        out = run_once()
        for i in range(n0, len(CTX.prefix)):
            alt = CTX.prefix[:i] + [False]
            s = z3.Solver()
            s.set("timeout", 60000)
            s.add(*CTX.path[:i])
            s.add(CTX.path[i].arg(0) if z3.is_not(CTX.path[i]) else z3.Not(CTX.path[i]))
            t = time.time()
            r = s.check()
            CTX.solver_s += time.time() - t
            CTX.queries += 1
            if str(r) != "unsat":
                stack.append(alt)
        yield list(CTX.path), out
