"""CLI:  ./check <ID> [--tier quick|thorough] [--replay file] [--only harness,...]"""
import argparse
import importlib
import json
import os
import sys

from vf import runner


def main():
    ap = argparse.ArgumentParser()
    ap.add_argument("pid")
    ap.add_argument("--tier", default=os.environ.get("VERIF_TIER") or "quick", choices=["quick", "thorough"])
    ap.add_argument("--replay")
    ap.add_argument("--only", default="")
    try:
        ncpu = len(os.sched_getaffinity(0))
    except AttributeError:
        ncpu = os.cpu_count() or 4
    ap.add_argument("--jobs", type=int, default=int(os.environ.get("VF_JOBS") or max(2, min(16, ncpu))))
    ap.add_argument("-v", action="store_true")
    ap.add_argument("--keep", action="store_true")
    a = ap.parse_args()
    seed = int(os.environ.get("VERIF_SEED") or 0)
    if a.replay:
        with open(a.replay) as f:
            rp = json.load(f)
        h = runner.H(rp["harness"], rp["module"], rp["func"], lambda t: [], {}, {}, [], real=rp.get("mode") == "real")
        out = runner.replay(h, rp["cube"], rp["args"], rp.get("mode", "concrete"))
        print(json.dumps(out, indent=1))
        if out["outcome"] in ("viol", "false"):
            print(f"VIOLATION property={rp['property']} replay={a.replay}")
            sys.exit(1)
        sys.exit(0 if out["outcome"] == "ok" else 2)
    mod = importlib.import_module(f"vf.props.{a.pid.lower()}")
    spec = mod.SPEC
    only = set(filter(None, a.only.split(",")))
    code, _ = runner.run_property(spec, a.tier, seed, a.jobs, only=only, verbose=a.v, keep=a.keep)
    sys.exit(code)


if __name__ == "__main__":
    main()
