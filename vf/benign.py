"""Run the checks against the behaviour-preserving refactorings kept under /verif/benign/ (each must leave every mapped check at
exit 0: no alarm on code where the property holds).   python -m vf.benign [patch ...]   -> /verif/benign/RESULTS.json"""
import json
import os
import subprocess
import sys
import tempfile
import time

VERIF = os.path.dirname(os.path.dirname(os.path.abspath(__file__)))
BEN = os.path.join(VERIF, "benign")


def main():
    mp = json.load(open(os.path.join(BEN, "MAP.json")))
    names = sys.argv[1:] or sorted(mp)
    assert subprocess.run(["git", "-C", "/repo", "status", "--porcelain", "--untracked-files=no"], capture_output=True, text=True).stdout.strip() == ""
    resfile = os.path.join(BEN, "RESULTS.json")
    results = json.load(open(resfile)) if os.path.exists(resfile) else {}
    evdir = tempfile.mkdtemp(prefix="vf-benign-ev-", dir="/var/tmp")
    for name in names:
        r = subprocess.run(["git", "-C", "/repo", "apply", os.path.join(BEN, name)], capture_output=True, text=True)
        if r.returncode != 0:
            results[name] = {"error": r.stderr[-300:]}
            continue
        out = {}
        try:
            for pid in mp[name]:
                t0 = time.time()
                p = subprocess.run([os.path.join(VERIF, "check"), pid, "--tier", "quick"], capture_output=True, text=True,
                                   env=dict(os.environ, VF_EVIDENCE_DIR=evdir), cwd=VERIF)
                bad = [ln[:400] for ln in p.stdout.splitlines() if ln.startswith(("VIOLATION", "  harness=", "INCONCLUSIVE", "HARNESS-ERROR"))][:4]
                out[pid] = {"exit": p.returncode, "alarms": bad, "wall_s": round(time.time() - t0, 1)}
                print(f"{name}: {pid} exit={p.returncode} wall={out[pid]['wall_s']}s {bad[:1]}", flush=True)
        finally:
            subprocess.run(["git", "-C", "/repo", "checkout", "--", "."], check=True)
        results[name] = {"checks": out, "quiet": all(v["exit"] == 0 for v in out.values())}
        json.dump(results, open(resfile, "w"), indent=1)
    print(json.dumps({k: v.get("quiet") for k, v in results.items()}, indent=1))


if __name__ == "__main__":
    main()
