#!/bin/sh
# Build the overlay interpreter used by every check: /venv's python + its site-packages (repo deps, editable
# dvc-data from /repo) + crosshair-tool and z3-solver from the offline wheelhouse. Idempotent; ~20 s.
set -e
VENV="${VERIF_VENV:-/verif/.venv}"
if [ -x "$VENV/bin/python" ] && "$VENV/bin/python" -c "import crosshair, z3, dvc_data, dvc_objects" 2>/dev/null; then
  exit 0
fi
exec 9>"/var/tmp/.verif-setup.lock"
flock 9
if [ -x "$VENV/bin/python" ] && "$VENV/bin/python" -c "import crosshair, z3, dvc_data, dvc_objects" 2>/dev/null; then
  exit 0
fi
rm -rf "$VENV"
/venv/bin/python -m venv "$VENV"
SP=$("$VENV/bin/python" -c "import sysconfig; print(sysconfig.get_paths()['purelib'])")
printf "import site; site.addsitedir('/venv/lib/python3.12/site-packages')\n" > "$SP/_verif_overlay.pth"
PIP_NO_INDEX=1 "$VENV/bin/pip" install -q --no-index --find-links /opt/veriftools/wheels crosshair-tool z3-solver >/dev/null
"$VENV/bin/python" -c "import crosshair, z3, dvc_data, dvc_objects; print('verif venv ready', crosshair.__version__ if hasattr(crosshair,'__version__') else '')"
