from typing import List
import dvc_data.hashfile.hash as H
import dvc_data.hashfile.istextfile as I

class RecHasher:
    name = "md5"
    def __init__(self): self.buf = b""
    def update(self, b): self.buf = self.buf + b
    def hexdigest(self): return "x"

class FakeFile:
    def __init__(self, data, caps): self.data = data; self.pos = 0; self.caps = caps; self.i = 0
    def read(self, n=-1):
        # short reads allowed: returns at most n and at most cap_i (>=1) bytes
        if n is None or n < 0: n = len(self.data) - self.pos
        if self.i < len(self.caps):
            n = min(n, self.caps[self.i]); self.i += 1
        chunk = self.data[self.pos:self.pos + n]
        self.pos += len(chunk)
        return chunk
    def tell(self): return self.pos

def stream_passthrough(data: bytes, chunk: int, c0: int, c1: int, c2: int) -> bool:
    """
    pre: len(data) <= 5
    pre: 1 <= chunk <= 6 and 1 <= c0 <= 6 and 1 <= c1 <= 6 and 1 <= c2 <= 6
    post: _
    """
    H.get_hasher = lambda name: RecHasher()
    f = FakeFile(data, [c0, c1, c2])
    s = H.HashStreamFile(f, "md5")
    out = b""
    while True:
        d = s.read(chunk)
        if not d: break
        out = out + d
    return out == data and s.hasher.buf == data and s.total_read == len(data)

def d2u(data: bytes) -> bool:
    """
    pre: len(data) <= 4
    post: _
    """
    r = H.dos2unix(data)
    # reference: scan
    ref = b""; i = 0
    while i < len(data):
        if data[i] == 13 and i + 1 < len(data) and data[i+1] == 10:
            ref = ref + b"\n"; i += 2
        else:
            ref = ref + data[i:i+1]; i += 1
    return r == ref

def istext_ref(block: bytes) -> bool:
    """
    pre: len(block) <= 4
    post: _
    """
    r = I.istextblock(block)
    if len(block) == 0: return r is True
    if 0 in block: return r is False
    n = 0
    for b in block:
        if not (32 <= b < 127 or b in (10, 13, 9, 12, 8)): n += 1
    return r == (10 * n <= 3 * len(block))
