from typing import Optional
from dvc_data.index import DataIndex, DataIndexEntry
from dvc_data.index.diff import diff, ADD, DELETE, MODIFY, UNCHANGED, RENAME
from dvc_data.hashfile.meta import Meta
from dvc_data.hashfile.hash_info import HashInfo

KEYS = [("a",), ("b",), ("a", "x"), ("a", "y")]
POOL = [None, "h1", "h2"]

def build(kind, hs):
    # kind[i]: 0 absent, 1 file, 2 dir (only for ("a",)); children of a exist only if a is dir or absent(implicit dir)
    idx = DataIndex()
    for k, kd, h in zip(KEYS, kind, hs):
        if kd == 0: continue
        if len(k) == 2 and kind[0] == 1: continue   # a is a file: no children
        hi = HashInfo("md5", POOL[h]) if POOL[h] else None
        idx[k] = DataIndexEntry(key=k, meta=Meta(isdir=(kd == 2)), hash_info=hi)
    return idx

def flat(idx):
    return {k: (e.meta.isdir, e.hash_info.value if e.hash_info else None) for k, e in idx.items()}

def exact(k0: int, k1: int, k2: int, k3: int, h0: int, h1: int, h2: int, h3: int,
          j0: int, j1: int, j2: int, j3: int, g0: int, g1: int, g2: int, g3: int, with_unchanged: bool) -> bool:
    """
    pre: 0 <= k0 <= 2 and 0 <= j0 <= 2
    pre: all(0 <= v <= 1 for v in (k1, k2, k3, j1, j2, j3))
    pre: all(0 <= v <= 2 for v in (h0, h1, h2, h3, g0, g1, g2, g3))
    post: _
    """
    old = build((k0, k1, k2, k3), (h0, h1, h2, h3)); new = build((j0, j1, j2, j3), (g0, g1, g2, g3))
    fo, fn = flat(old), flat(new)
    seen = {}
    for ch in diff(old, new, with_unchanged=with_unchanged):
        key = ch.key
        if key in seen: return False
        seen[key] = ch.typ
    for k in set(fo) | set(fn):
        if k in fo and k not in fn: exp = DELETE
        elif k in fn and k not in fo: exp = ADD
        elif fo[k] == fn[k]: exp = UNCHANGED
        else: exp = MODIFY
        if exp == UNCHANGED and not with_unchanged:
            if k in seen: return False
        elif seen.get(k) != exp: return False
    return set(seen) <= set(fo) | set(fn)
