import logging
import hashlib
import dvc_objects.fs.generic as G
import dvc_objects.db as ODBM
from dvc_data.hashfile.db import HashFileDB
from dvc_data.hashfile.hash_info import HashInfo
from dvc_data.hashfile.transfer import transfer
from dvc_data.hashfile.tree import Tree
from modelfs import ModelFS
logging.disable(logging.CRITICAL)
import dvc_data.hashfile._progress as PR
class _QP:
    def __init__(self, iterable=None, total=None, name=None, phase="Querying"): self.it = iterable
    def __iter__(self): return iter(self.it)
    def __enter__(self): return self
    def __exit__(self, *a): return False
    def callback(self, *a): pass
PR.QueryingProgress = _QP

CONT = [b"c0", b"c1", b"c2"]
FO = [hashlib.md5(c).hexdigest() for c in CONT]

def mktree(bits):
    t = Tree()
    for i, b in enumerate(bits):
        if b: t.add((f"n{i}",), None, HashInfo("md5", FO[i]))
    t.digest()
    return t

class Viol(Exception): pass

def run(l00: bool, l01: bool, l02: bool, l10: bool, l11: bool, l12: bool,
        s0: bool, s1: bool, s2: bool, p0: bool, p1: bool, p2: bool,
        x0: bool, x1: bool, x2: bool, xd0: bool, xd1: bool) -> bool:
    """
    post: _
    """
    sfs, dfs = ModelFS(), ModelFS()
    src, dst = HashFileDB(sfs, "/s"), HashFileDB(dfs, "/d")
    t0, t1 = mktree((l00, l01, l02)), mktree((l10, l11, l12))
    trees = {t0.oid: t0, t1.oid: t1}
    for t in trees.values():
        sfs.fs.makedirs(src.oid_to_path(t.oid).rsplit("/", 1)[0], exist_ok=True)
        sfs.fs.files[src.oid_to_path(t.oid)] = t.as_bytes()
    for i, (s, p) in enumerate(zip((s0, s1, s2), (p0, p1, p2))):
        if s: sfs.fs.makedirs("/s/" + FO[i][:2], exist_ok=True); sfs.fs.files[src.oid_to_path(FO[i])] = CONT[i]
        if p: dfs.fs.makedirs("/d/" + FO[i][:2], exist_ok=True); dfs.fs.files[dst.oid_to_path(FO[i])] = CONT[i]
    fail = dict(zip(FO, (x0, x1, x2))); fail[t0.oid] = xd0; fail[t1.oid] = xd1
    def check_closed():
        for t in trees.values():
            if dfs.fs.isfile(dst.oid_to_path(t.oid)):
                for _, _, hi in t:
                    if not dfs.fs.isfile(dst.oid_to_path(hi.value)):
                        raise Viol((t.oid, hi.value))
    def model_transfer(from_fs, from_path, to_fs, to_path, hardlink=False, links=None, callback=None, batch_size=None, on_error=None):
        fps = [from_path] if isinstance(from_path, str) else from_path
        tps = [to_path] if isinstance(to_path, str) else to_path
        for fp, tp in zip(fps, tps):
            oid = "".join(tp.split("/")[-2:])
            if fail.get(oid):
                exc = OSError("injected")
                if on_error is None: raise exc
                on_error(fp, tp, exc)
            elif not from_fs.fs.isfile(fp):
                exc = FileNotFoundError(fp)
                if on_error is None: raise exc
                on_error(fp, tp, exc)
            else:
                to_fs.fs.files[tp] = from_fs.fs.files[fp]
            check_closed()
    G.transfer = model_transfer
    req = set()
    for t in trees.values():
        req.add(t.hash_info)
        for _, _, hi in t: req.add(hi)
    res = transfer(src, dst, req)
    check_closed()
    for hi in res.transferred:
        if not dfs.fs.isfile(dst.oid_to_path(hi.value)): return False
    return True
