import z3, time
# Lemma: for ints 0<=n<=L, 1<=L<=512: (float(n)/L <= 0.30) <=> (10*n <= 3*L)   [Python float == IEEE double, RNE]
n, L = z3.BitVecs("n L", 11)
F = z3.Float64()
rm = z3.RNE()
fn = z3.fpSignedToFP(rm, z3.ZeroExt(5, n), F); fL = z3.fpSignedToFP(rm, z3.ZeroExt(5, L), F)
q = z3.fpDiv(rm, fn, fL)
lhs = z3.fpLEQ(q, z3.FPVal(0.30, F))
rhs = z3.ULE(10 * z3.ZeroExt(5, n), 3 * z3.ZeroExt(5, L))
s = z3.Solver(); s.set("timeout", 300000)
s.add(z3.ULE(n, L), z3.UGE(L, 1), z3.ULE(L, 512), lhs != rhs)
t = time.time(); r = s.check(); print("z3", r, round(time.time() - t, 1), "s")
if str(r) == "sat": print(s.model())
open("fp.smt2", "w").write("(set-logic QF_BVFP)\n" + s.to_smt2().split("\n", 1)[1] if False else s.to_smt2())
