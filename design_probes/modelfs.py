"""Probe-quality model filesystem: dict path -> (content label). POSIX paths, no links."""
import io, errno, posixpath
from dvc_objects.fs.base import FileSystem

class Inner:
    async_impl = False
    root_marker = "/"
    def __init__(self):
        self.files = {}   # path -> bytes
        self.dirs = {"/"}
        self.log = []
    def invalidate_cache(self, path=None): pass
    def _norm(self, p): return p.rstrip("/") or "/"
    def exists(self, p): p = self._norm(p); return p in self.files or p in self.dirs
    lexists = exists
    def isfile(self, p): return self._norm(p) in self.files
    def isdir(self, p): return self._norm(p) in self.dirs
    def info(self, p, **kw):
        p = self._norm(p)
        if p in self.files:
            return {"name": p, "size": len(self.files[p]), "type": "file"}
        if p in self.dirs:
            return {"name": p, "size": 0, "type": "directory"}
        raise FileNotFoundError(errno.ENOENT, "nf", p)
    def makedirs(self, p, exist_ok=False):
        p = self._norm(p)
        if p in self.dirs:
            if not exist_ok: raise FileExistsError(p)
            return
        parts = p.split("/")
        for i in range(2, len(parts) + 1):
            self.dirs.add("/".join(parts[:i]))
    def mkdir(self, p, create_parents=True, **kw): self.makedirs(p, exist_ok=False)
    def ls(self, p, detail=False, **kw):
        p = self._norm(p)
        if p not in self.dirs: raise FileNotFoundError(p)
        pre = p.rstrip("/") + "/"
        out = [q for q in list(self.files) + list(self.dirs) if q.startswith(pre) and "/" not in q[len(pre):] and q != p]
        return [self.info(q) for q in out] if detail else out
    def find(self, p, **kw):
        p = self._norm(p); pre = p.rstrip("/") + "/"
        return sorted(q for q in self.files if q.startswith(pre))
    def open(self, p, mode="r", **kw):
        p = self._norm(p)
        if "r" in mode:
            if p not in self.files: raise FileNotFoundError(p)
            return io.BytesIO(self.files[p]) if "b" in mode else io.StringIO(self.files[p].decode())
        raise NotImplementedError
    def rm_file(self, p):
        p = self._norm(p)
        if p not in self.files: raise FileNotFoundError(p)
        del self.files[p]
    def rm(self, p, recursive=False, **kw):
        for q in ([p] if isinstance(p, str) else p): self.rm_file(q)

class ModelFS(FileSystem):
    protocol = "model"
    PARAM_CHECKSUM = "md5"
    CAN_TRAVERSE = False
    def __init__(self):
        super().__init__(fs=Inner())
        self.jobs = 1
    def exists(self, path, callback=None, batch_size=None):
        if isinstance(path, str): return self.fs.exists(path)
        return [self.fs.exists(p) for p in path]
    def md5(self, path):
        import hashlib
        return hashlib.md5(self.fs.files[self.fs._norm(path)]).hexdigest()
