from typing import Optional
from dvc_data.index.diff import _diff_entry, ADD, DELETE, MODIFY, UNCHANGED
from dvc_data.index.index import DataIndexEntry
from dvc_data.hashfile.meta import Meta
from dvc_data.hashfile.hash_info import HashInfo

def mk(present: bool, has_meta: bool, isdir: bool, size: Optional[int], isexec: bool, md5: Optional[str],
       has_hi: bool, hname: Optional[str], hval: Optional[str]):
    if not present:
        return None
    meta = Meta(isdir=isdir, size=size, isexec=isexec, md5=md5) if has_meta else None
    hi = HashInfo(hname, hval) if has_hi else None
    return DataIndexEntry(key=("a",), meta=meta, hash_info=hi)

def swap_sym(p1: bool, m1: bool, d1: bool, s1: Optional[int], x1: bool, c1: Optional[str], h1: bool, n1: Optional[str], v1: Optional[str],
             p2: bool, m2: bool, d2: bool, s2: Optional[int], x2: bool, c2: Optional[str], h2: bool, n2: Optional[str], v2: Optional[str],
             hash_only: bool, meta_only: bool) -> bool:
    """
    post: _
    """
    a = mk(p1, m1, d1, s1, x1, c1, h1, n1, v1)
    b = mk(p2, m2, d2, s2, x2, c2, h2, n2, v2)
    t1 = _diff_entry(a, b, hash_only=hash_only, meta_only=meta_only)
    t2 = _diff_entry(b, a, hash_only=hash_only, meta_only=meta_only)
    sw = {ADD: DELETE, DELETE: ADD, MODIFY: MODIFY, UNCHANGED: UNCHANGED}
    return sw[t1] == t2

def self_unchanged(p1: bool, m1: bool, d1: bool, s1: Optional[int], x1: bool, c1: Optional[str], h1: bool, n1: Optional[str], v1: Optional[str],
             hash_only: bool, meta_only: bool) -> bool:
    """
    post: _
    """
    a = mk(p1, m1, d1, s1, x1, c1, h1, n1, v1)
    b = mk(p1, m1, d1, s1, x1, c1, h1, n1, v1)
    return _diff_entry(a, b, hash_only=hash_only, meta_only=meta_only) == UNCHANGED

def witness(p1: bool, m1: bool, d1: bool, s1: Optional[int], x1: bool, c1: Optional[str], h1: bool, n1: Optional[str], v1: Optional[str],
             p2: bool, m2: bool, d2: bool, s2: Optional[int], x2: bool, c2: Optional[str], h2: bool, n2: Optional[str], v2: Optional[str]) -> bool:
    """
    post: _
    """
    a = mk(p1, m1, d1, s1, x1, c1, h1, n1, v1)
    b = mk(p2, m2, d2, s2, x2, c2, h2, n2, v2)
    return _diff_entry(a, b) != MODIFY
