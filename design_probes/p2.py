from typing import Optional
import dvc_data.hashfile.transfer as T
from dvc_data.hashfile.tree import Tree
from dvc_data.hashfile.hash_info import HashInfo

FILES = ["f0", "f1", "f2"]
DIRS = ["d0.dir", "d1.dir"]

class Obj:
    def __init__(self, oid): self.oid = oid; self.fs = "FS"; self.path = "/src/" + oid
class Src:
    hash_name = "md5"
    def get(self, oid): return Obj(oid)
class Violation(Exception): pass
class Dest:
    hash_name = "md5"
    def __init__(self, present, fails, listing):
        self.present = set(present); self.fails = fails; self.listing = listing
    def get(self, oid): return Obj(oid)
    def check_closed(self):
        for d in DIRS:
            if d in self.present:
                for f in self.listing[d]:
                    if f not in self.present:
                        raise Violation((d, f))
    def add(self, paths, fs, oids, on_error=None, **kw):
        for oid in oids:
            if self.fails[oid]:
                on_error(oid, OSError("boom"))
            else:
                self.present.add(oid)
            self.check_closed()

def run(l00: bool, l01: bool, l02: bool, l10: bool, l11: bool, l12: bool,
        rd0: bool, rd1: bool,
        pf0: bool, pf1: bool, pf2: bool,
        xf0: bool, xf1: bool, xf2: bool, xd0: bool, xd1: bool, bug: bool) -> bool:
    """
    post: _
    """
    listing = {"d0.dir": [f for f, b in zip(FILES, (l00, l01, l02)) if b],
               "d1.dir": [f for f, b in zip(FILES, (l10, l11, l12)) if b]}
    trees = {}
    for d in DIRS:
        t = Tree()
        for f in listing[d]:
            t.add((f,), None, HashInfo("md5", f))
        t.hash_info = HashInfo("md5", d); t.oid = d
        trees[d] = t
    T.find_tree_by_obj_id = lambda odbs, hi: trees[hi.value]
    # closed request: every requested dir with all its files not already present in dest
    present = [f for f, b in zip(FILES, (pf0, pf1, pf2)) if b]
    req_dirs = [d for d, b in zip(DIRS, (rd0, rd1)) if b]
    new = set()
    for d in req_dirs:
        new.add(HashInfo("md5", d))
        for f in listing[d]:
            if f not in present:
                new.add(HashInfo("md5", f))
    fails = dict(zip(FILES + DIRS, (xf0, xf1, xf2, xd0, xd1)))
    dest = Dest(present, fails, listing)
    failed = T._do_transfer(Src(), dest, new, set())
    dest.check_closed()
    # truthfulness: everything not failed is present
    for hi in new:
        if hi not in failed and hi.value not in dest.present:
            return False
    if bug and rd0 and rd1 and xf0:
        return "d1.dir" not in dest.present or True
    return True
