import logging, hashlib, errno; logging.disable(logging.CRITICAL)
import dvc_objects.fs.generic as G
import dvc_objects.fs.utils as GU
import dvc_data.hashfile.checkout as CK
import dvc_data.hashfile._progress as PR
from mlfs import ModelLocalFS, install
from dvc_data.hashfile.db.local import LocalHashFileDB
from dvc_data.hashfile.build import build
from dvc_data.hashfile.transfer import transfer
from dvc_data.hashfile.checkout import checkout, PromptError, CheckoutError, LinkError
class _QP:
    def __init__(self, iterable=None, total=None, name=None, phase="Querying"): self.it = iterable
    def __iter__(self): return iter(self.it)
    def __enter__(self): return self
    def __exit__(self, *a): return False
    def callback(self, *a): pass
PR.QueryingProgress = _QP
R = "/__vf__"

def make_transfer():
    def model_transfer(from_fs, from_path, to_fs, to_path, hardlink=False, links=None, callback=None, batch_size=None, on_error=None):
        fps = [from_path] if isinstance(from_path, str) else from_path
        tps = [to_path] if isinstance(to_path, str) else to_path
        links = list(links or (["reflink", "hardlink", "copy"] if hardlink else ["reflink", "copy"]))
        for fp, tp in zip(fps, tps):
            try:
                same = isinstance(from_fs, type(to_fs))
                done = False
                for l in links:
                    if l == "copy":
                        with from_fs.open(fp, "rb") as f: data = f.read()
                        I = to_fs.fs; par = tp.rsplit("/", 1)[0] or "/"; I.makedirs(par, exist_ok=True)
                        t = I._tmp(par); I._write(t, data); I._rename(t, tp); done = True; break
                    if not same or l == "reflink": continue
                    try:
                        getattr(to_fs.fs, {"hardlink": "link", "symlink": "symlink"}[l])(fp, tp); done = True; break
                    except FileExistsError:
                        done = True; break
                if not done: raise OSError(errno.ENOTSUP, "no link types")
            except Exception as exc:
                if on_error is None: raise
                on_error(fp, tp, exc)
    return model_transfer

class Viol(Exception): pass

def c05(sa: int, sb: int, ta: bool, tb: bool, cached_old: bool, relink: bool, link: int) -> bool:
    """
    pre: 0 <= sa <= 3 and 0 <= sb <= 3 and 0 <= link <= 2
    post: _
    """
    fs = ModelLocalFS(); install(fs); I = fs.fs
    G.transfer = make_transfer(); CK.transfer = G.transfer
    CK.test_links = lambda links, ffs, fp, tfs, tp: [l for l in links if l != "reflink"]
    GU.makedirs = lambda p, exist_ok=False, mode=None: I.makedirs(p, exist_ok=exist_ok)
    cache = LocalHashFileDB(fs, R + "/c", type=[["copy"], ["hardlink"], ["symlink"]][link])
    I.makedirs(R + "/c", exist_ok=True); I.makedirs(R + "/src/d", exist_ok=True)
    TARGET = {"a": b"A\n", "d/b": b"B\n"}
    for k, on in (("a", ta), ("d/b", tb)):
        if on: I._write(R + "/src/" + k, TARGET[k])
    if not (ta or tb): return True
    st, meta, obj = build(cache, R + "/src", fs, "md5")
    transfer(st, cache, {obj.hash_info}, shallow=False)
    OLD = b"old\n"
    if cached_old:
        I._write(R + "/src_old", OLD); s2, _, o2 = build(cache, R + "/src_old", fs, "md5"); transfer(s2, cache, {o2.hash_info})
    cached = {hashlib.md5(i.data).hexdigest() for p, i in I.files.items() if p.startswith(R + "/c/")}
    I.makedirs(R + "/w/d", exist_ok=True)
    for k, s in (("a", sa), ("d/b", sb)):
        if s == 1: I._write(R + "/w/" + k, TARGET[k])
        elif s == 2: I._write(R + "/w/" + k, OLD)
        elif s == 3: I._write(R + "/w/" + k, b"precious " + k.encode())
    before = {p: I.files[I._resolve(p)].data for p in I.find(R + "/w")}
    try:
        checkout(R + "/w", fs, obj, cache, force=False, relink=relink)
        raised = None
    except (PromptError, CheckoutError, LinkError) as e:
        raised = e
    after = {p: I.files[I._resolve(p)].data for p in I.find(R + "/w")}
    for p, data in before.items():
        if after.get(p) != data and hashlib.md5(data).hexdigest() not in cached:
            raise Viol((p, data, after.get(p), repr(raised)))
    return True
