"""Engine-B probe: run the real istextblock on duck-typed z3 bytes (exact Float64), compare with an independent definition."""
import time, z3
import dvc_data.hashfile.istextfile as I

class Fork(Exception): pass
class Ctx:
    def __init__(self): self.prefix = []; self.pos = 0; self.path = []
CTX = Ctx()
SOLVER_TIME = [0.0]

def decide(cond):
    """fork on a z3 Bool by decision-prefix replay; prune infeasible branches with z3"""
    c = CTX
    if c.pos < len(c.prefix):
        v = c.prefix[c.pos]
    else:
        v = True; c.prefix.append(v)
    c.pos += 1
    c.path.append(cond if v else z3.Not(cond))
    return v

class SBool:
    def __init__(self, e): self.e = e
    def __bool__(self): return decide(self.e)
class SInt:
    def __init__(self, e): self.e = e
    def __float__(self): raise TypeError
class SFloat:
    def __init__(self, e): self.e = e
    def __truediv__(self, o):
        oe = o.e if isinstance(o, SFloat) else z3.fpToFP(z3.RNE(), z3.IntVal(o) if isinstance(o, int) else o.e, z3.Float64()) if not isinstance(o, int) else z3.FPVal(float(o), z3.Float64())
        return SFloat(z3.fpDiv(z3.RNE(), self.e, oe))
    def __le__(self, o): return SBool(z3.fpLEQ(self.e, z3.FPVal(o, z3.Float64())))
class SBytes:
    """concrete-length bytes with symbolic elements; `guards` mark deleted elements (after translate)"""
    def __init__(self, elems, guards=None): self.elems = elems; self.guards = guards or [z3.BoolVal(True)] * len(elems)
    def __len__(self):
        if all(z3.is_true(g) for g in self.guards): return len(self.elems)
        raise TypeError("symbolic length: use symlen")
    def __bool__(self): return len(self.elems) > 0
    def __contains__(self, item):
        assert isinstance(item, bytes) and len(item) == 1
        return bool(SBool(z3.Or([e == item[0] for e in self.elems]) if self.elems else z3.BoolVal(False)))
    def translate(self, table, delete=b""):
        assert table is None
        keep = [z3.And(g, z3.And([e != d for d in delete])) for e, g in zip(self.elems, self.guards)]
        return SBytes(self.elems, keep)
    def symlen(self):
        tot = z3.BitVecVal(0, 16)
        for g in self.guards: tot = tot + z3.If(g, z3.BitVecVal(1, 16), z3.BitVecVal(0, 16))
        return tot

import builtins
def run(L):
    elems = [z3.BitVec(f"b{i}", 8) for i in range(L)]
    # independent definition
    TEXT = set(range(32, 127)) | {10, 13, 9, 12, 8}
    nontext = z3.BitVecVal(0, 16)
    for e in elems: nontext = nontext + z3.If(z3.Or([e == t for t in sorted(TEXT)]), z3.BitVecVal(0, 16), z3.BitVecVal(1, 16))
    hasnul = z3.Or([e == 0 for e in elems]) if L else z3.BoolVal(False)
    ref = z3.BoolVal(True) if L == 0 else z3.And(z3.Not(hasnul), z3.ULE(10 * nontext, z3.BitVecVal(3 * L, 16)))
    # patched len/float for the shim (module-level names used by the real function)
    real_len, real_float = builtins.len, builtins.float
    def s_len(x): return SInt(x.symlen()) if isinstance(x, SBytes) and not all(z3.is_true(g) for g in x.guards) else real_len(x)
    def s_float(x): return SFloat(z3.fpSignedToFP(z3.RNE(), z3.ZeroExt(16, x.e), z3.Float64())) if isinstance(x, SInt) else real_float(x)
    I.len, I.float = s_len, s_float
    results = []; stack = [[]]; queries = 0
    try:
        while stack:
            CTX.prefix = stack.pop(); CTX.pos = 0; CTX.path = []
            n0 = len(CTX.prefix)
            out = I.istextblock(SBytes(elems))
            # schedule the sibling branches of new decisions
            for i in range(n0, len(CTX.prefix)):
                stack.append(CTX.prefix[:i] + [False])
            oute = out.e if isinstance(out, SBool) else z3.BoolVal(bool(out))
            s = z3.Solver(); s.add(*CTX.path); s.add(oute != ref)
            t = time.time(); r = s.check(); SOLVER_TIME[0] += time.time() - t; queries += 1
            results.append(str(r))
            if str(r) == "sat": return "sat", s.model(), queries
    finally:
        del I.len, I.float
    return ("unsat" if all(r == "unsat" for r in results) else "unknown"), None, queries

for L in (0, 1, 2, 3, 4, 6, 8, 10, 12):
    t = time.time(); r, m, q = run(L); print(L, r, q, "queries", round(time.time() - t, 2), "s", m if m else "")
print("solver time", round(SOLVER_TIME[0], 2))
