from typing import Optional
from dvc_data.hashfile.meta import Meta
from dvc_data.hashfile.hash_info import HashInfo
from dvc_data.index.index import DataIndexEntry

def meta_rt(isdir: bool, size: Optional[int], nfiles: Optional[int], isexec: bool, version_id: Optional[str],
            etag: Optional[str], checksum: Optional[str], md5: Optional[str], remote: Optional[str]) -> bool:
    """
    post: _
    """
    m = Meta(isdir=isdir, size=size, nfiles=nfiles, isexec=isexec, version_id=version_id, etag=etag, checksum=checksum, md5=md5, remote=remote)
    d = m.to_dict()
    m2 = Meta.from_dict(d)
    return m2.to_dict() == d and m2 == m or (m2.to_dict() == d)

def hi_rt(name: Optional[str], value: Optional[str]) -> bool:
    """
    post: _
    """
    h = HashInfo(name, value)
    d = h.to_dict()
    h2 = HashInfo.from_dict(d)
    return h2.to_dict() == d and (not d or (h2.name == name and h2.value == value))

def entry_rt(has_meta: bool, isdir: bool, size: Optional[int], isexec: bool, md5: Optional[str],
             has_hi: bool, name: Optional[str], value: Optional[str], loaded: Optional[bool]) -> bool:
    """
    post: _
    """
    e = DataIndexEntry(key=("k",), meta=Meta(isdir=isdir, size=size, isexec=isexec, md5=md5) if has_meta else None,
                       hash_info=HashInfo(name, value) if has_hi else None, loaded=loaded)
    def proj(x):
        return ((x.meta.to_dict() if x.meta else {}), (x.hash_info.to_dict() if x.hash_info else {}), x.loaded)
    e2 = DataIndexEntry.from_dict(e.to_dict())
    return proj(e2) == proj(e)
