import sys
import crosshair.core as core
core.consider_shortcircuit = lambda *a, **k: None   # always execute the real callee body
from crosshair.main import main
sys.argv[0] = "crosshair"
main()
