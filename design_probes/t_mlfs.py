import logging, hashlib; logging.disable(logging.CRITICAL)
from mlfs import ModelLocalFS, install
from dvc_data.hashfile.db.local import LocalHashFileDB
from dvc_data.hashfile.db import HashFileDB
from dvc_data.hashfile.build import build
from dvc_data.hashfile.transfer import transfer
from dvc_data.hashfile.checkout import checkout, PromptError
import dvc_data.hashfile._progress as PR
class _QP:
    def __init__(self, iterable=None, total=None, name=None, phase="Querying"): self.it = iterable
    def __iter__(self): return iter(self.it)
    def __enter__(self): return self
    def __exit__(self, *a): return False
    def callback(self, *a): pass
PR.QueryingProgress = _QP
fs = ModelLocalFS(); install(fs)
I = fs.fs
I.makedirs("/ws/data/sub", exist_ok=True); I._write("/ws/data/a", b"A\n"); I._write("/ws/data/sub/b", b"B\n"); I._write("/ws/data/e", b"")
I.makedirs("/cache", exist_ok=True)
for cls, typ in ((LocalHashFileDB, ["copy"]), (LocalHashFileDB, ["hardlink"]), (LocalHashFileDB, ["symlink"]), (HashFileDB, ["copy"])):
    cache = cls(fs, "/cache", type=typ)
    staging, meta, obj = build(cache, "/ws/data", fs, "md5")
    res = transfer(staging, cache, {obj.hash_info}, shallow=False)
    print(cls.__name__, typ, "oid", obj.oid, "nfiles", meta.nfiles, "size", meta.size, "transferred", len(res.transferred), "failed", len(res.failed))
    out = f"/out_{cls.__name__}_{typ[0]}"
    r = checkout(out, fs, obj, cache, force=False)
    print("  checkout ->", r, sorted((p, I.files[I._resolve(p)].data) for p in I.find(out)))
    print("  link kinds:", {p: ("sym" if I.islink(p) else "hard" if I.is_hardlink(p) else "copy") for p in I.find(out)})
    r2 = checkout(out, fs, obj, cache, force=False)
    print("  second checkout ->", r2)
    # user edits a file, uncached -> must refuse
    if typ == ["copy"]:
        I._write(out + "/a", b"user edit\n")
        try:
            checkout(out, fs, obj, cache, force=False); print("  NO ERROR, a =", I.files[out + "/a"].data)
        except PromptError as e: print("  PromptError ok; a =", I.files[out + "/a"].data)
print("modes in cache:", sorted({oct(i.mode) for p, i in I.files.items() if p.startswith("/cache/")}))
