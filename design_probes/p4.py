from typing import Optional
from dvc_data.hashfile.tree import _merge, MergeError

KEYS = [("a",), ("b",), ("a", "b")]

def mk(v0: int, v1: int, v2: int):
    d = {}
    for k, v in zip(KEYS, (v0, v1, v2)):
        if v != 0:
            d[k] = v
    return d

def merge_rule(a0: int, a1: int, a2: int, o0: int, o1: int, o2: int, t0: int, t1: int, t2: int) -> bool:
    """
    pre: all(0 <= x <= 3 for x in (a0, a1, a2, o0, o1, o2, t0, t1, t2))
    post: _
    """
    anc, our, their = mk(a0, a1, a2), mk(o0, o1, o2), mk(t0, t1, t2)
    try:
        res = _merge(anc, our, their, allowed=["add", "remove", "change"])
    except MergeError:
        return True
    for k, a, o, t in zip(KEYS, (a0, a1, a2), (o0, o1, o2), (t0, t1, t2)):
        if o == a: exp = t
        elif t == a: exp = o
        elif o == t: exp = o
        else: return False   # conflict must have raised
        if res.get(k, 0) != exp: return False
    return True
