import os, tempfile, json, hashlib, shutil
from dvc_objects.fs.local import LocalFileSystem
from dvc_data.hashfile.db import HashFileDB
from dvc_data.hashfile.db.local import LocalHashFileDB
from dvc_data.hashfile.hash_info import HashInfo
from dvc_data.hashfile.transfer import transfer
from dvc_data.hashfile.gc import gc
from dvc_data.hashfile.tree import Tree

tmp = tempfile.mkdtemp(dir="/scratch")
fs = LocalFileSystem()
src = HashFileDB(fs, os.path.join(tmp, "src")); dst = HashFileDB(fs, os.path.join(tmp, "dst"))
def md5(b): return hashlib.md5(b).hexdigest()
f = b"shared\n"; fo = md5(f); src.add_bytes(fo, f)
def mkdir(names):
    t = Tree()
    for n in names: t.add((n,), None, HashInfo("md5", fo))
    t.digest(); src.add(t.path, t.fs, t.oid); return t
t0 = mkdir(["a"]); t1 = mkdir(["b"])
# make upload of the shared file fail
orig = HashFileDB.add
import dvc_objects.db as odbmod
real_add = odbmod.ObjectDB.add
def failing_add(self, path, fs_, oid, **kw):
    if self is dst or self.path == dst.path:
        paths = [path] if isinstance(path, str) else path; oids = [oid] if isinstance(oid, str) else oid
        keep = [(p, o) for p, o in zip(paths, oids) if o != fo]
        for p, o in zip(paths, oids):
            if o == fo and kw.get("on_error"): kw["on_error"](o, OSError("injected"))
        if not keep: return 0
        ps, os_ = zip(*keep)
        return real_add(self, list(ps), fs_, list(os_), **kw)
    return real_add(self, path, fs_, oid, **kw)
odbmod.ObjectDB.add = failing_add
import logging; logging.disable(logging.CRITICAL)
req = {t0.hash_info, t1.hash_info, HashInfo("md5", fo)}
res = transfer(src, dst, req)
print("failed:", sorted(h.value for h in res.failed)); print("transferred:", sorted(h.value for h in res.transferred))
print("dest has:", sorted(dst.all()))
odbmod.ObjectDB.add = real_add
# gc non-shallow
try:
    n = gc(src, [t0.hash_info], shallow=False, dry=True)
    print("gc ok", n)
except Exception as e:
    print("gc shallow=False raised", type(e).__name__, e)
try:
    n = gc(src, [HashInfo("md5", fo)], shallow=True, dry=True)
    print("gc shallow ok", n)
except Exception as e:
    print("gc shallow raised", type(e).__name__, e)
l = LocalHashFileDB(fs, os.path.join(tmp, "loc"))
l.add_bytes(fo, f); l.add(t0.path, t0.fs, t0.oid)
try:
    print("local gc", gc(l, [], dry=False), sorted(l.all()))
except Exception as e:
    print("local gc raised", type(e).__name__, e)
shutil.rmtree(tmp)
