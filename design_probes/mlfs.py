"""Prototype model of a POSIX local filesystem behind dvc_objects.LocalFileSystem (design probe)."""
import errno, io, stat as _stat, posixpath
from dvc_objects.fs.local import LocalFileSystem

class Node:
    __slots__ = ("data", "mode", "ino", "mtime", "nlink_ref")
class Inode:
    def __init__(self, ino, data, mode, mtime): self.ino, self.data, self.mode, self.mtime, self.nlink = ino, data, mode, mtime, 1

class ModelInner:
    async_impl = False
    root_marker = "/"
    sep = "/"
    def __init__(self):
        self.files = {}      # path -> Inode  (hard links share Inode)
        self.links = {}      # path -> symlink target
        self.dirs = {"/": 0}
        self.clock = 1000; self.next_ino = 10; self.log = []
        self.tmpn = 0
    # -- helpers
    def _tick(self): self.clock += 1; return float(self.clock)
    def _newino(self): self.next_ino += 1; return self.next_ino
    def _n(self, p): 
        p = posixpath.normpath(p); return p
    def _resolve(self, p):
        p = self._n(p)
        seen = 0
        while p in self.links and seen < 8:
            t = self.links[p]; p = self._n(t if t.startswith("/") else posixpath.join(posixpath.dirname(p), t)); seen += 1
        return p
    def invalidate_cache(self, path=None): pass
    # -- queries
    def lexists(self, p, **kw): p = self._n(p); return p in self.files or p in self.links or p in self.dirs
    def exists(self, p, **kw): return self.lexists(p)
    def isfile(self, p): return self._resolve(p) in self.files
    def isdir(self, p): return self._resolve(p) in self.dirs
    def islink(self, p): return self._n(p) in self.links
    def is_hardlink(self, p):
        p = self._n(p); return p in self.files and self.files[p].nlink > 1
    def stat(self, p, follow=True):
        p0 = self._n(p)
        link = p0 in self.links
        q = self._resolve(p0) if (follow or link) else p0
        if q in self.files:
            i = self.files[q]
            return dict(name=p0, size=len(i.data), type="file", created=i.mtime, islink=link, mode=_stat.S_IFREG | i.mode, uid=0, gid=0, mtime=i.mtime, ino=i.ino, nlink=i.nlink, **({"destination": self.links[p0]} if link else {}))
        if q in self.dirs:
            return dict(name=p0, size=0, type="directory", created=0.0, islink=link, mode=_stat.S_IFDIR | 0o755, uid=0, gid=0, mtime=0.0, ino=self.dirs[q], nlink=2)
        raise FileNotFoundError(errno.ENOENT, "No such file or directory", p0)
    def info(self, p, **kw): return self.stat(p)
    def size(self, p): return self.stat(p)["size"]
    def ls(self, p, detail=False, **kw):
        p = self._resolve(p)
        if p not in self.dirs:
            if p in self.files: return [self.info(p)] if detail else [p]
            raise FileNotFoundError(errno.ENOENT, "nf", p)
        pre = p.rstrip("/") + "/"
        names = sorted(q for q in list(self.files) + list(self.links) + list(self.dirs) if q != p and q.startswith(pre) and "/" not in q[len(pre):])
        return [self.info(q) for q in names] if detail else names
    def walk(self, path, maxdepth=None, topdown=True, detail=False, **kw):
        path = self._n(path)
        if path not in self.dirs: return
        ents = self.ls(path)
        dirs = [posixpath.basename(q) for q in ents if self.isdir(q) and q not in self.links]
        files = [posixpath.basename(q) for q in ents if not (self.isdir(q) and q not in self.links)]
        if detail:
            yield path, {d: self.info(posixpath.join(path, d)) for d in dirs}, {f: self.info(posixpath.join(path, f)) for f in files}
        else:
            yield path, dirs, files
        for d in list(dirs):
            yield from self.walk(posixpath.join(path, d), detail=detail)
    def find(self, path, **kw):
        for root, _, files in self.walk(path):
            for f in files: yield f"{root}/{f}"
    # -- mutations
    def makedirs(self, p, exist_ok=False):
        p = self._n(p)
        if p in self.dirs:
            if not exist_ok: raise FileExistsError(errno.EEXIST, "exists", p)
            return
        if p in self.files or p in self.links: raise FileExistsError(errno.EEXIST, "exists", p)
        parts = p.split("/")
        for i in range(2, len(parts) + 1):
            d = "/".join(parts[:i])
            if d in self.files: raise NotADirectoryError(errno.ENOTDIR, "notdir", d)
            if d not in self.dirs: self.dirs[d] = self._newino(); self.log.append(("mkdir", d))
    def mkdir(self, p, create_parents=True, **kw): self.makedirs(p, exist_ok=False)
    def _write(self, p, data, mode=0o644):
        p = self._n(p)
        if posixpath.dirname(p) not in self.dirs: raise FileNotFoundError(errno.ENOENT, "no parent", p)
        if p in self.dirs: raise IsADirectoryError(errno.EISDIR, "isdir", p)
        q = self._resolve(p)
        if q in self.files:
            i = self.files[q]
            if not i.mode & 0o200: raise PermissionError(errno.EACCES, "ro", p)
            i.data = data; i.mtime = self._tick()
        else:
            self.files[q] = Inode(self._newino(), data, mode, self._tick())
        self.log.append(("write", q))
    def _rename(self, a, b):
        a, b = self._n(a), self._n(b)
        if b in self.dirs: raise IsADirectoryError(errno.EISDIR, "isdir", b)
        self._unlink(b, missing_ok=True)
        if a in self.links: self.links[b] = self.links.pop(a)
        else: self.files[b] = self.files.pop(a)
        self.log.append(("rename", a, b))
    def _unlink(self, p, missing_ok=False):
        p = self._n(p)
        if p in self.links: del self.links[p]
        elif p in self.files:
            i = self.files.pop(p); i.nlink -= 1
        elif missing_ok: return
        else: raise FileNotFoundError(errno.ENOENT, "nf", p)
        self.log.append(("unlink", p))
    def _tmp(self, parent): self.tmpn += 1; return posixpath.join(parent, f".tmp{self.tmpn}")
    def put_file(self, lpath, rpath, callback=None, **kw):
        src = self._resolve(lpath)
        if src not in self.files: raise FileNotFoundError(errno.ENOENT, "nf", lpath)
        parent = posixpath.dirname(self._n(rpath)); self.makedirs(parent, exist_ok=True)
        t = self._tmp(parent); self._write(t, self.files[src].data); self._rename(t, rpath)
    def copy(self, a, b, **kw): self.put_file(a, b)
    cp_file = copy
    def get_file(self, rpath, lpath, callback=None, **kw):
        src = self._resolve(rpath)
        if src in self.dirs: self.makedirs(lpath, exist_ok=True); return
        self._write(lpath, self.files[src].data)
    def mv(self, a, b, **kw): self.makedirs(posixpath.dirname(self._n(b)), exist_ok=True); self._rename(a, b)
    def rmdir(self, p):
        p = self._n(p)
        if p not in self.dirs: raise FileNotFoundError(errno.ENOENT, "nf", p)
        if self.ls(p): raise OSError(errno.ENOTEMPTY, "not empty", p)
        del self.dirs[p]; self.log.append(("rmdir", p))
    def _rmtree(self, p):
        p = self._n(p)
        if p in self.dirs and p not in self.links:
            for q in self.ls(p): self._rmtree(q)
            self.rmdir(p)
        else: self._unlink(p)
    def rm_file(self, p): self._rmtree(p)
    def rm(self, path, recursive=False, maxdepth=None):
        for p in ([path] if isinstance(path, str) else path): self._rmtree(p)
    def open(self, p, mode="r", encoding=None, **kw):
        if "r" in mode and "+" not in mode:
            q = self._resolve(p)
            if q not in self.files:
                if q in self.dirs: raise IsADirectoryError(errno.EISDIR, "isdir", p)
                raise FileNotFoundError(errno.ENOENT, "nf", p)
            d = self.files[q].data
            return io.BytesIO(d) if "b" in mode else io.StringIO(d.decode(encoding or "utf-8"))
        fs = self
        class W(io.BytesIO):
            def close(s):
                if not s.closed: fs._write(p, s.getvalue())
                super().close()
        return W()
    def symlink(self, a, b):
        b = self._n(b)
        if self.lexists(b): raise FileExistsError(errno.EEXIST, "exists", b)
        self.links[b] = a; self.log.append(("symlink", b))
    def link(self, a, b):
        a, b = self._resolve(a), self._n(b)
        if self.lexists(b): raise FileExistsError(errno.EEXIST, "exists", b)
        if len(self.files[a].data) == 0: self._write(b, b""); return
        self.files[b] = self.files[a]; self.files[a].nlink += 1; self.log.append(("link", b))
    def reflink(self, a, b): raise OSError(errno.ENOTSUP, "reflink unsupported")
    def chmod(self, p, mode):
        q = self._resolve(p)
        if q in self.files: self.files[q].mode = _stat.S_IMODE(mode); self.log.append(("chmod", q, oct(mode)))
        elif q not in self.dirs: raise FileNotFoundError(errno.ENOENT, "nf", p)

class ModelLocalFS(LocalFileSystem):
    def __init__(self):
        super().__init__(fs=ModelInner()); self.jobs = 1; self.hash_jobs = 1
    def exists(self, path, callback=None, batch_size=None):
        if isinstance(path, str): return self.fs.exists(path)
        return [self.fs.exists(p) for p in path]
    def info(self, path, callback=None, batch_size=None, return_exceptions=False, **kw):
        if isinstance(path, str): return self.fs.info(path)
        return [self.fs.info(p) for p in path]
    def getcwd(self): return "/"
    def upload_fobj(self, fobj, to_info, **kw):
        self.fs.makedirs(posixpath.dirname(to_info), exist_ok=True)
        t = self.fs._tmp(posixpath.dirname(to_info)); self.fs._write(t, fobj.read()); self.fs._rename(t, to_info)
    def is_symlink(self, p): return self.fs.islink(p)

class ModelOS:
    """stands in for the `os` module inside dvc-data modules that call the OS directly"""
    def __init__(self, fs, real):
        self._fs, self._real = fs, real
        self.sep = "/"; self.name = "posix"
        class P:
            join = staticmethod(posixpath.join); dirname = staticmethod(posixpath.dirname); basename = staticmethod(posixpath.basename)
            abspath = staticmethod(posixpath.normpath); relpath = staticmethod(posixpath.relpath)
            def exists(s, p): return fs.fs.lexists(p) and (fs.fs._resolve(p) in fs.fs.files or fs.fs._resolve(p) in fs.fs.dirs)
            def isdir(s, p): return fs.fs.isdir(p)
        self.path = P()
    def chmod(self, p, mode): self._fs.fs.chmod(p, mode)
    def stat(self, p, follow_symlinks=True):
        d = self._fs.fs.stat(p, follow=follow_symlinks)
        class S: pass
        s = S(); s.st_mode, s.st_ino, s.st_size, s.st_mtime, s.st_nlink = d["mode"], d["ino"], d["size"], d["mtime"], d["nlink"]; return s
    def rename(self, a, b): self._fs.fs._rename(a, b)
    def umask(self, m): return 0o022
    def cpu_count(self): return 1
    def fspath(self, p): return p

def localfs_info_for(fs):
    def _localfs_info(path):
        d = fs.fs.stat(path, follow=False)
        if d["islink"]: d = fs.fs.stat(path, follow=True); d["islink"] = True
        return d
    return _localfs_info

def install(fs):
    """patch direct OS access in dvc-data modules to the model"""
    import os as real_os
    import dvc_data.hashfile.db.local as L, dvc_data.hashfile.build as B, dvc_data.hashfile.checkout as C, dvc_data.hashfile.utils as U, dvc_data.hashfile.state as S
    import dvc_data.index.checkout as IC
    mos = ModelOS(fs, real_os); li = localfs_info_for(fs)
    L.os = mos; L._localfs_info = li; B._localfs_info = li; B.os = mos; C._localfs_info = li; U._localfs_info = li; IC.os = mos; S.os = mos
    ino = lambda p: fs.fs.stat(p)["ino"]
    C.inode = ino; S.get_inode = ino
    def copyfile(src, dst, callback=None, **kw): fs.fs._write(dst, fs.fs.files[fs.fs._resolve(src)].data)
    L.copyfile = copyfile; L.remove = lambda p: fs.fs._rmtree(p)
    n = [0]
    def tmp_fname(prefix=""): n[0] += 1; return f"{prefix}.utmp{n[0]}"
    L.tmp_fname = tmp_fname
