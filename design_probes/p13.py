import logging; logging.disable(logging.CRITICAL)
from typing import Optional
import hashlib
from mlfs import ModelLocalFS, install
from dvc_data.hashfile.state import State
from dvc_data.hashfile.hash import hash_file
from dvc_data.hashfile.hash_info import HashInfo

class ModelHashes(dict):
    def get_many(self, keys, default=None):
        for k in keys: yield k, dict.get(self, k, default)
    def set_many(self, items, retry=False):
        for k, v in items: self[k] = v
    def is_empty(self): return not self
    def close(self): pass

R = "/__vf__"
CONT = [b"", b"x", b"yy", b"zz"]
def stale(c0: int, op1: int, c1: int, op2: int, c2: int, q1: bool, alg: bool) -> bool:
    """
    pre: 0 <= c0 <= 3 and 0 <= c1 <= 3 and 0 <= c2 <= 3 and 0 <= op1 <= 3 and 0 <= op2 <= 3
    post: _
    """
    fs = ModelLocalFS(); install(fs); I = fs.fs
    st = State.__new__(State); st.tmp_dir = R + "/tmp"; st.root_dir = R; st.ignore = None; st.hashes = ModelHashes(); st.links = {}
    I.makedirs(R + "/d", exist_ok=True); p = R + "/d/f"
    I._write(p, CONT[c0])
    name = "md5" if alg else "sha256"
    def fresh():
        return hashlib.new(name, I.files[p].data).hexdigest() if p in I.files else None
    def query():
        if p not in I.files: return True
        meta, hi = hash_file(p, fs, name, state=st)
        return hi.value == fresh() and hi.name == name
    ok = query()
    for op, c, q in ((op1, c1, q1), (op2, c2, True)):
        if op == 0: I._write(p, CONT[c])                         # in-place write (mtime bumps)
        elif op == 1: I._write(p + ".n", CONT[c]); I._rename(p + ".n", p)   # atomic replace, new inode
        elif op == 2 and p in I.files: I.files[p].mtime = I._tick()         # touch
        elif op == 3 and p in I.files: I._unlink(p)
        if q: ok = ok and query()
    return ok
