# string kernels
import os
from dvc_objects.db import ObjectDB
from dvc_data.hashfile.db.local import LocalHashFileDB
from dvc_data.hashfile.db import HashFileDB

class FakeFS:
    protocol = "local"; PARAM_CHECKSUM = "md5"; sep = "/"
    def join(self, *parts): return "/".join(parts)
    def isabs(self, p): return p.startswith("/")
    def abspath(self, p): return p
    def parts(self, path):
        # posix semantics of dvc_objects FileSystem.parts for normalized abs paths
        import posixpath
        ret = []
        while True:
            path, part = posixpath.split(path)
            if part:
                ret.append(part); continue
            if path:
                ret.append(path)
            break
        ret.reverse()
        return tuple(ret)

ldb = LocalHashFileDB(FakeFS(), "/c")
hdb = HashFileDB(FakeFS(), "/c")

def layout_roundtrip(oid: str) -> bool:
    """
    pre: 3 <= len(oid) <= 6
    pre: all(c in "0123456789abcdef.dir" for c in oid)
    pre: "/" not in oid
    post: _
    """
    p = ldb.oid_to_path(oid)
    return ldb.path_to_oid(p) == oid and p == hdb.oid_to_path(oid)

def layout_injective(a: str, b: str) -> bool:
    """
    pre: 3 <= len(a) <= 5 and 3 <= len(b) <= 5
    pre: "/" not in a and "/" not in b
    post: _
    """
    return a == b or ldb.oid_to_path(a) != ldb.oid_to_path(b)

def key_join_split(a: str, b: str, c: str, n: int) -> bool:
    """
    pre: 1 <= n <= 3
    pre: len(a) <= 3 and len(b) <= 3 and len(c) <= 3
    pre: "/" not in a and "/" not in b and "/" not in c
    post: _
    """
    key = (a, b, c)[:n]
    return tuple("/".join(key).split("/")) == key

def relkey_slice(path: str, a: str, b: str) -> bool:
    """
    pre: 1 <= len(path) <= 4 and 1 <= len(a) <= 3 and 1 <= len(b) <= 3
    pre: "/" not in a and "/" not in b and not path.endswith("/")
    post: _
    """
    root = f"{path}/{a}/{b}"
    rel_key = tuple(root[len(path) + 1:].split("/")) if root != path else ()
    return rel_key == (a, b)
