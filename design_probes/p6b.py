from typing import Optional
from dvc_data.hashfile.hash_info import HashInfo

def hi_rt(name: Optional[str], value: Optional[str]) -> bool:
    """
    pre: name is None or len(name) <= 3
    pre: value is None or len(value) <= 3
    post: _
    """
    h = HashInfo(name, value)
    d = h.to_dict()
    h2 = HashInfo.from_dict(d)
    if not value or not name:
        return d == {} and h2.name is None and h2.value is None
    return len(d) == 1 and h2.name == name and h2.value == value
