from typing import Optional
from dvc_data.index.index import StorageMapping, StorageInfo, Storage, StorageKeyError

class S:
    def __init__(self, tag): self.tag = tag

def mk(parts):
    return tuple(parts)

def resolve(k0: str, k1: str, klen: int,
            p1len: int, p2len: int, p2b: str,
            d0: bool, c0: bool, r0: bool, d1: bool, c1: bool, r1: bool, d2: bool, c2: bool, r2: bool,
            has0: bool, has1: bool, has2: bool) -> bool:
    """
    pre: 0 <= klen <= 2 and 0 <= p1len <= 2 and 0 <= p2len <= 2
    pre: len(k0) <= 1 and len(k1) <= 1 and len(p2b) <= 1
    post: _
    """
    key = (k0, k1)[:klen]
    prefixes = [(), (k0, k1)[:p1len], (k0, p2b)[:p2len]]
    flags = [(d0, c0, r0), (d1, c1, r1), (d2, c2, r2)]
    has = [has0, has1, has2]
    sm = StorageMapping()
    model = {}
    for i, (p, f, h) in enumerate(zip(prefixes, flags, has)):
        if not h: continue
        info = StorageInfo(data=S(("d", i)) if f[0] else None, cache=S(("c", i)) if f[1] else None, remote=S(("r", i)) if f[2] else None)
        sm[p] = info
        model[p] = info
    # oracle
    cands = sorted([p for p in model if len(p) <= len(key) and key[:len(p)] == p], key=len, reverse=True)
    exp = {}
    for role in ("data", "cache", "remote"):
        exp[role] = None
        for p in cands:
            v = getattr(model[p], role)
            if v is not None:
                exp[role] = v; break
    try:
        got = sm[key]
    except StorageKeyError:
        return not cands
    return bool(cands) and got.data is exp["data"] and got.cache is exp["cache"] and got.remote is exp["remote"]
